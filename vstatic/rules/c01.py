"""C01 - SBC returns a well-formed, disjoint, connected set of clusters (structural clauses).

The behavioural core (disjointness / connectivity for every messy input) is a run-time quantity and
is NOT decided. Decided are necessary conditions visible in the shape of SBC.get_clusters and its
callees: input immutability, determinism, pipeline order, shrink-only index rewrites, periodicity of
prototype cells, the zero-vector guard, the species filter of merge, single-component cleaning,
honouring of every public parameter, and signature conformance on the reachable call graph.
"""
import ast

from .. import sigs
from ..cfg import walk_own
from ..dataflow import Flow
from ..effects import Effects
from ..model import norm
from ..report import AnalysisError

SBC = "matid.clustering.sbc.SBC"
GC = SBC + ".get_clusters"
CLUSTER_INIT = "matid.clustering.cluster.Cluster.__init__"
PF = "matid.core.periodicfinder.PeriodicFinder"
GEO = "matid.geometry.geometry"
ND_PREFIX = ("numpy.random", "random", "time", "os.urandom", "uuid", "secrets", "datetime")
SEEDED_CTORS = {"numpy.random.default_rng", "numpy.random.RandomState", "numpy.random.Generator", "random.Random",
                "numpy.random.SeedSequence", "numpy.random.PCG64", "numpy.random.MT19937"}
GROW = {"add", "update", "append", "extend", "insert", "union", "symmetric_difference_update"}


# ----------------------------------------------------------------------------- R01.1
def r01_1(rep, M, E, rid, fq=GC, param="system"):
    name = fq.split(".")[-1]
    if param not in M.params(fq):
        raise AnalysisError(f"{fq} has no parameter `{param}`")
    why = E.why(fq, param)
    if param in E.mut[fq]:
        for ps, line, what in why[:5]:
            rep.violation(rid, f"{name}: {what}", f"the caller's `{param}` may be mutated here (alias of the argument, not of a copy)",
                          f"{M.where(fq)} line {line}")
    else:
        rep.ok(rid, f"{name}: no mutator, store or mutating callee ever receives an alias of `{param}`")
    uses = [n for n in M.own_nodes(fq) if isinstance(n, ast.Name) and n.id == param and isinstance(n.ctx, ast.Load)]
    rep.count(f"uses_of_{param}", len(uses))
    return uses


def _cluster_modifies_its_system(M, E):
    """does any method of Cluster apply a mutator to / store into / hand to a mutating callee the structure it keeps?"""
    from ..effects import MUTATORS
    cq = "matid.clustering.cluster.Cluster"
    init = M.find_method(cq, "__init__")
    held = {t.attr for s2 in ast.walk(M.func(init)) if isinstance(s2, ast.Assign) and isinstance(s2.value, ast.Name) and s2.value.id == "system"
            for t in s2.targets if isinstance(t, ast.Attribute) and norm(t.value) == "self"} if init else set()
    if not held:
        raise AnalysisError("Cluster.__init__: the attribute that keeps the `system` argument was not found")

    def is_held(e):
        while isinstance(e, (ast.Subscript, ast.Attribute)) and not (isinstance(e, ast.Attribute) and norm(e.value) == "self"):
            e = e.value
        return isinstance(e, ast.Attribute) and norm(e.value) == "self" and e.attr in held
    for q, d in M.functions().items():
        if M.enclosing_class(q) != cq:
            continue
        for n in ast.walk(d):
            if isinstance(n, ast.Call) and isinstance(n.func, ast.Attribute) and n.func.attr in MUTATORS and is_held(n.func.value):
                return q, n
            if isinstance(n, (ast.Assign, ast.AugAssign)):
                for t in (n.targets if isinstance(n, ast.Assign) else [n.target]):
                    if isinstance(t, (ast.Subscript, ast.Attribute)) and not (isinstance(t, ast.Attribute) and norm(t.value) == "self") and is_held(t):
                        return q, n
            if isinstance(n, ast.Call):
                for callee in M.callees_of_call(q, n):
                    for p2, a in M.bind_args(callee, n).items():
                        if p2 in E.mut.get(callee, ()) and is_held(a):
                            return q, n
    return None


def r01_1_escape(rep, M, E, rid):
    if "system" in E.esc[GC] or "system" in E.ret[GC]:
        hit = _cluster_modifies_its_system(M, E)
        if hit:
            rep.violation(rid, "get_clusters: escape of `system`", f"the caller's structure itself is stored on the returned clusters and "
                          f"{hit[0].split('.')[-1]}() modifies the structure a cluster keeps (`{norm(hit[1])[:50]}`): the caller's atoms change", M.where(GC))
        else:
            rep.ok(rid, "get_clusters: the argument is kept by the returned clusters, but no Cluster method modifies the structure it keeps")
    else:
        rep.ok(rid, "get_clusters: the returned clusters reference a private copy, never the argument")


# ----------------------------------------------------------------------------- R01.2
def nondeterminism(M, roots, seed_params=()):
    """list of (fq, node, what) for nondeterminism sources reachable from roots"""
    reach = M.reachable(roots)
    hits = []
    for fq in sorted(reach):
        for n in M.own_nodes(fq):
            if isinstance(n, ast.Call):
                d = M.ext_name(fq, n.func)
                if d and any(d == p or d.startswith(p + ".") for p in ND_PREFIX):
                    if d in SEEDED_CTORS:
                        a0 = n.args[0] if n.args else next((k.value for k in n.keywords if k.arg == "seed"), None)
                        if a0 is None or (isinstance(a0, ast.Constant) and a0.value is None):
                            hits.append((fq, n, f"{d}() without a seed draws entropy from the OS"))
                        else:
                            fl = Flow(M.defs[fq])
                            sl = fl.slice(a0, fl.node_of(n))
                            if fq in roots and not (sl["params"] & set(seed_params)):
                                hits.append((fq, n, f"{d}({norm(a0)}) is not fed by the `seed` parameter"))
                            elif fq in roots:
                                # the seed must reach the constructor as it is: `seed or None` sends 0 to OS entropy, `seed % k` / abs() merge seeds
                                for e in [a0] + list(sl["exprs"]):
                                    for x in ast.walk(e):
                                        lossy = None
                                        if isinstance(x, ast.BoolOp) and any(isinstance(v, ast.Name) and v.id in seed_params for v in x.values):
                                            lossy = "a falsy seed (0) is replaced"
                                        elif isinstance(x, ast.IfExp) and any(isinstance(v, ast.Name) and v.id in seed_params for v in ast.walk(x.test)) \
                                                and not (isinstance(x.test, ast.Compare) and isinstance(x.test.ops[0], (ast.Is, ast.IsNot))):
                                            lossy = "the seed is replaced depending on its value"
                                        elif isinstance(x, ast.BinOp) and isinstance(x.op, (ast.Mod, ast.FloorDiv, ast.BitAnd, ast.RShift)) \
                                                and any(isinstance(v, ast.Name) and v.id in seed_params for v in ast.walk(x.left)):
                                            lossy = "distinct seeds are merged"
                                        if lossy:
                                            hits.append((fq, n, f"{d}({norm(a0)}): {lossy} (`{norm(x)}`): for seed 0 the generator is seeded from OS entropy / "
                                                                "the stream is not a function of the seed, so identical calls give different results"))
                    else:
                        hits.append((fq, n, f"call of {d}: result differs between runs"))
                if isinstance(n.func, ast.Name) and n.func.id in ("hash", "id") and M.resolve(fq, n.func) is None:
                    hits.append((fq, n, f"builtin {n.func.id}() depends on the process (hash seed / address)"))
            # iteration over a set of strings
            it = None
            if isinstance(n, ast.For):
                it = n.iter
            elif isinstance(n, ast.comprehension):
                it = n.iter
            if it is not None and _is_str_set(M, fq, it):
                hits.append((fq, it, f"iteration over a set of strings `{norm(it)[:50]}`: order depends on PYTHONHASHSEED"))
    return reach, hits


def _is_str_set(M, fq, e):
    def setlike(x):
        return isinstance(x, ast.Set) or (isinstance(x, ast.Call) and isinstance(x.func, ast.Name) and x.func.id in ("set", "frozenset"))

    def strsrc(x):
        return any((isinstance(s, ast.Call) and isinstance(s.func, ast.Attribute) and s.func.attr in
                    ("get_chemical_symbols", "get_chemical_formula")) or (isinstance(s, ast.Constant) and isinstance(s.value, str))
                   for s in ast.walk(x))
    if setlike(e):
        return strsrc(e)
    if isinstance(e, ast.Name):
        for n in M.own_nodes(fq):
            if isinstance(n, ast.Assign) and any(isinstance(t, ast.Name) and t.id == e.id for t in n.targets):
                if setlike(n.value) and strsrc(n.value):
                    return True
    return False


def r01_2(rep, M, rid, root=GC, seed_params=("seed",)):
    reach, hits = nondeterminism(M, [root], seed_params)
    rep.count("functions_reachable", len(reach))
    for fq, n, what in hits:
        rep.violation(rid, f"{fq.replace('matid.', '')}: {norm(n)[:70]}", what, M.where(fq, n))
    rep.ok(rid, f"{len(reach)} functions reachable from {root.split('.')[-1]} scanned for nondeterminism sources")
    # all draws go through the seeded generator
    if seed_params:
        fn = M.func(root)
        ctor = [n for n in M.own_nodes(root) if isinstance(n, ast.Call) and M.ext_name(root, n.func) in SEEDED_CTORS]
        if not ctor:
            rep.violation(rid, f"{root.split('.')[-1]}: seeded generator", "no generator is constructed from the `seed` parameter",
                          M.where(root))
        else:
            rep.ok(rid, f"generator constructed: {norm(ctor[0])}")
    # positive fixture: the scanner must see the unseeded RandomState() of make_random_displacement
    _, fx = nondeterminism(M, [GEO + ".make_random_displacement"], ())
    if not any("without a seed" in w for _, _, w in fx):
        raise AnalysisError("positive fixture failed: RandomState() in make_random_displacement not recognised by the source scanner")
    rep.ok(rid, "positive fixture: unseeded RandomState() in make_random_displacement is recognised (not reachable from get_clusters)")


# ----------------------------------------------------------------------------- R01.3
def r01_3(rep, M, rid):
    fn = M.func(GC)
    fl = Flow(fn)
    cfg = fl.cfg
    stages = ["_merge_clusters", "_localize_clusters", "_clean_clusters"]
    nodes = {}
    calls = {}
    for s in stages:
        M.func(SBC + "." + s)      # anchor must exist
        found = [(n, c) for n, d in cfg.g.nodes(data=True) if d["ast"] is not None for c in walk_own(d["ast"])
                 if isinstance(c, ast.Call) and (SBC + "." + s) in M.callees_of_call(GC, c)]
        nodes[s] = [n for n, _ in found]
        calls[s] = [c for _, c in found]
    prev = cfg.entry
    ok_all = True
    for i, s in enumerate(stages):
        if not nodes[s]:
            rep.violation(rid, f"get_clusters: stage {s}", f"the pipeline stage `{s}` is never called", M.where(GC))
            ok_all = False
            continue
        src = [cfg.entry] if i == 0 else nodes[stages[i - 1]]
        passes = all(cfg.all_paths_pass(a, cfg.exit, nodes[s]) for a in src if a is not None) if src else False
        if not passes:
            rep.violation(rid, f"get_clusters: stage {s}", f"there is a path to the return that skips `{s}`"
                          + (f" after `{stages[i - 1]}`" if i else ""), M.where(GC, calls[s][0]))
            ok_all = False
        else:
            rep.ok(rid, f"every path {'from entry' if i == 0 else 'after ' + stages[i - 1]} passes {s}")
    # no way back
    for a, b in (("_localize_clusters", "_merge_clusters"), ("_clean_clusters", "_localize_clusters"), ("_clean_clusters", "_merge_clusters")):
        for x in nodes[a]:
            for y in nodes[b]:
                if cfg.reaches(x, y):
                    rep.violation(rid, f"get_clusters: order {b} before {a}", f"`{b}` can run after `{a}`: localising after cleaning can "
                                  "disconnect a cluster, merging after localising re-creates overlaps", M.where(GC, calls[b][0]))
                    ok_all = False
    # data: each stage consumes the previous result; the return is the last result
    def consumes(call_later, calls_prev):
        at = fl.node_of(call_later)
        for a in list(call_later.args) + [k.value for k in call_later.keywords]:
            if any(c in calls_prev for c in fl.calls_in_slice(a, at)):
                return True
        return False
    if all(calls[s] for s in stages):
        if consumes(calls["_localize_clusters"][0], calls["_merge_clusters"]):
            rep.ok(rid, "_localize_clusters consumes the result of _merge_clusters")
        else:
            rep.violation(rid, "get_clusters: data flow merge -> localize", "the clusters given to _localize_clusters are not the merged ones",
                          M.where(GC, calls["_localize_clusters"][0]))
        if consumes(calls["_clean_clusters"][0], calls["_localize_clusters"]):
            rep.ok(rid, "_clean_clusters consumes the result of _localize_clusters")
        else:
            rep.violation(rid, "get_clusters: data flow localize -> clean", "the clusters given to _clean_clusters are not the localized ones",
                          M.where(GC, calls["_clean_clusters"][0]))
        rets = [cfg.stmt(n) for n in cfg.returns]
        for r in rets:
            at = fl.node_of(r)
            sl = fl.slice(r.value, at)
            derived = any(c in calls["_clean_clusters"] for e in sl["exprs"] for c in ast.walk(e))
            grows = any(isinstance(x, ast.BinOp) and isinstance(x.op, (ast.Add, ast.BitOr)) for e in sl["exprs"][:1] for x in ast.walk(e))
            # additions to the returned list after cleaning
            later = []
            if isinstance(r.value, ast.Name):
                for m, site in fl.mut_sites.get(r.value.id, []):
                    if isinstance(site, ast.Call) and site.func.attr in GROW and any(cfg.reaches(cn, m) for cn in nodes["_clean_clusters"]):
                        later.append(site)
            if derived and not grows and not later:
                rep.ok(rid, "the returned list is the result of _clean_clusters")
            else:
                rep.violation(rid, "get_clusters: returned value", f"`{norm(r.value)}` is not exactly the cleaned cluster list "
                              f"(derived from clean: {derived}; extended afterwards: {bool(grows or later)})", M.where(GC, r))
    return ok_all


# ----------------------------------------------------------------------------- R01.4
def r01_4(rep, M, rid):
    n = 0
    for name in ("_localize_clusters", "_clean_clusters"):
        fq = SBC + "." + name
        fn = M.func(fq)
        fl = Flow(fn)
        cinit = M.find_method("matid.clustering.cluster.Cluster", "__init__")
        rewrites = []
        for node in M.own_nodes(fq):
            if isinstance(node, ast.Assign):
                rewrites += [(node, node.value, norm(t.value)) for t in node.targets if isinstance(t, ast.Attribute) and t.attr == "indices"]
            elif isinstance(node, ast.Call) and cinit in M.callees_of_call(fq, node):
                # a rebuilt cluster that takes the place of the old one
                iv = M.bind_args(cinit, node).get("indices")
                olds = {norm(x.value) for x in ast.walk(iv) if isinstance(x, ast.Attribute) and x.attr == "indices"} if iv is not None else set()
                if iv is not None:
                    rewrites.append((node, iv, olds.pop() if len(olds) == 1 else "<none>"))
        for node, value, recv in rewrites:
            if True:
                if True:
                    n += 1
                    at = fl.node_of(node)
                    sl = fl.slice(value, at)
                    reads_old = any(isinstance(x, ast.Attribute) and x.attr == "indices" and norm(x.value) == recv
                                    for e in sl["exprs"] for x in ast.walk(e))
                    other = [norm(x) for e in sl["exprs"] for x in ast.walk(e) if isinstance(x, ast.Attribute)
                             and x.attr in ("indices", "_indices") and norm(x.value) != recv]
                    grow = [norm(x) for e in sl["exprs"] for x in ast.walk(e)
                            if (isinstance(x, ast.BinOp) and isinstance(x.op, (ast.Add, ast.BitOr)) and not _numeric(x))
                            or (isinstance(x, ast.Call) and isinstance(x.func, ast.Attribute) and x.func.attr in ("union", "concatenate", "append", "extend"))]
                    # in-place growth of the intermediate containers
                    names = {x.id for e in sl["exprs"] for x in ast.walk(e) if isinstance(x, ast.Name)}
                    for v in names:
                        for m, site in fl.mut_sites.get(v, []):
                            if isinstance(site, ast.Call) and site.func.attr in GROW and (m == at or fl.cfg.reaches(m, at)):
                                grow.append(norm(site))
                    construct = f"{name}: {norm(node)[:80]}"
                    if reads_old and not grow and not other:
                        rep.ok(rid, construct + " [subset of the previous indices]")
                    elif not reads_old:
                        rep.violation(rid, construct, "the new index list is not derived from the cluster's previous indices", M.where(fq, node))
                    else:
                        rep.violation(rid, construct, f"the new index list can contain atoms that were not in the cluster before "
                                      f"({(grow + other)[:2]}): after localisation clusters may only shrink, otherwise disjointness is lost",
                                      M.where(fq, node))
    rep.count("index_rewrites_after_merge", n)


def _numeric(binop):
    return any(isinstance(x, ast.Constant) and isinstance(x.value, (int, float)) for x in (binop.left, binop.right))


# ----------------------------------------------------------------------------- R01.5
def bool_literal(e):
    if isinstance(e, ast.Constant) and isinstance(e.value, bool):
        return [e.value] * 3
    if isinstance(e, (ast.List, ast.Tuple)) and len(e.elts) == 3 and all(isinstance(x, ast.Constant) and isinstance(x.value, bool) for x in e.elts):
        return [x.value for x in e.elts]
    return None


def r01_5(rep, M, rid):
    n = 0
    for name in ("_find_proto_cell", "_find_proto_cell_3d", "_find_proto_cell_2d"):
        fq = PF + "." + name
        M.func(fq)
        for node in M.own_nodes(fq):
            if not isinstance(node, ast.Call):
                continue
            val = None
            if M.resolve(fq, node.func) in (("ext", "ase.Atoms"), ("ext", "ase.atoms.Atoms")):
                val = next((k.value for k in node.keywords if k.arg == "pbc"), None)
                if val is None:
                    rep.violation(rid, f"{name}: {norm(node)[:50]}", "prototype cell built without pbc (defaults to non-periodic)", M.where(fq, node))
                    continue
            elif isinstance(node.func, ast.Attribute) and node.func.attr == "set_pbc" and node.args:
                val = node.args[0]
            if val is None:
                continue
            n += 1
            lit = bool_literal(val)
            construct = f"{name}: pbc = {norm(val)}"
            if lit is None:
                # pass-through of another cell's pbc is fine if it is itself a prototype cell
                if isinstance(val, ast.Call) and isinstance(val.func, ast.Attribute) and val.func.attr == "get_pbc":
                    rep.ok(rid, construct + " [carried over]")
                else:
                    raise AnalysisError(f"{name}: pbc value `{norm(val)}` is not a literal")
            elif sum(lit) >= 2:
                rep.ok(rid, construct)
            else:
                rep.violation(rid, construct, "a prototype cell must be periodic in two or three directions", M.where(fq, node))
    rep.count("proto_cell_pbc_sites", n)
    if n < 3:
        raise AnalysisError(f"only {n} prototype-cell pbc sites found (3 confirmed by hand)")
    # Cluster(...) sites in sbc.py
    for f2 in M.functions():
        if not f2.startswith("matid.clustering.sbc."):
            continue
        for call in M.calls_to(f2, CLUSTER_INIT):
            b = M.bind_args(CLUSTER_INIT, call)
            construct = f"{f2.replace('matid.clustering.sbc.', '')}: Cluster(...) region"
            if "cell" in b and not (isinstance(b["cell"], ast.Constant) and b["cell"].value is None):
                rep.violation(rid, construct, "a `cell=` override replaces the region's prototype cell", M.where(f2, call))
                continue
            reg = b.get("region")
            if reg is None or (isinstance(reg, ast.Constant) and reg.value is None):
                rep.violation(rid, construct, "cluster constructed without a region: get_cell() returns None", M.where(f2, call))
                continue
            fl = Flow(M.func(f2))
            at = fl.node_of(call)
            conds = fl.cfg.branch_conditions(at)
            guarded = any(pol is True and isinstance(t, ast.If) and isinstance(t.test, ast.Compare) and isinstance(t.test.ops[0], ast.IsNot)
                          and norm(t.test.left) == norm(reg) and isinstance(t.test.comparators[0], ast.Constant)
                          and t.test.comparators[0].value is None for t, pol in conds)
            from_regions = any(isinstance(x, ast.Attribute) and x.attr == "_region" for e in fl.slice(reg, at)["exprs"] for x in ast.walk(e))
            if guarded:
                rep.ok(rid, construct + f" `{norm(reg)}` under `is not None`")
            elif from_regions:
                rep.ok(rid, construct + f" `{norm(reg)}` selected from the regions of the merged clusters")
            else:
                rep.violation(rid, construct, f"`{norm(reg)}` may be None here", M.where(f2, call))
    # Cluster.get_cell returns the region's cell
    gc = "matid.clustering.cluster.Cluster.get_cell"
    fn = M.func(gc)
    if any(isinstance(r, ast.Return) and isinstance(r.value, ast.Attribute) and r.value.attr == "cell"
           and isinstance(r.value.value, ast.Attribute) and r.value.value.attr == "_region" for r in ast.walk(fn)):
        rep.ok(rid, "Cluster.get_cell returns self._region.cell")
    else:
        rep.violation(rid, "Cluster.get_cell", "does not return the region's prototype cell", M.where(gc))


# ----------------------------------------------------------------------------- R01.6
def r01_6(rep, M, rid):
    fn = M.func(GC)
    fl = Flow(fn)
    cfg = fl.cfg
    raises = [(n, d["ast"]) for n, d in cfg.g.nodes(data=True) if isinstance(d["ast"], ast.Raise)]
    good = []
    for n, r in raises:
        exc = r.exc.func if isinstance(r.exc, ast.Call) else r.exc
        conds = cfg.branch_conditions(n)
        tests = " && ".join(norm(t.test) if isinstance(t, (ast.If, ast.While)) else "loop" for t, pol in conds)
        mentions_pbc = any(isinstance(t, ast.If) and "pbc" in norm(t.test) for t, pol in conds)
        mentions_zero = any(isinstance(t, ast.If) and (".any()" in norm(t.test) or "norm" in norm(t.test) or "== 0" in norm(t.test)) for t, pol in conds)
        if norm(exc) == "ValueError" and mentions_pbc and mentions_zero:
            good.append((n, r, conds))
        elif norm(exc) != "ValueError":
            rep.violation(rid, f"get_clusters: raise {norm(exc)}", "the only permitted failure is ValueError for a zero cell vector "
                          "along a periodic direction", M.where(GC, r))
    if not good:
        rep.violation(rid, "get_clusters: zero-vector guard", "no `raise ValueError` under a test of a zero basis vector with pbc", M.where(GC))
        return
    rep.ok(rid, "ValueError is raised for a zero-length cell vector along a periodic direction")
    n, r, conds = good[0]
    # the vector tested is the cell *row* with the index of the pbc flag tested next to it (ase cells hold the basis vectors as rows)
    ztests = [t for t, pol in conds if isinstance(t, ast.If) and (".any()" in norm(t.test) or "norm" in norm(t.test) or "== 0" in norm(t.test))]
    ptests = [t for t, pol in conds if isinstance(t, ast.If) and "pbc" in norm(t.test)]
    for zt in ztests:
        subs = [x for x in ast.walk(zt.test) if isinstance(x, ast.Subscript)]
        pidx = {norm(x.slice) for pt in ptests for x in ast.walk(pt.test) if isinstance(x, ast.Subscript)}
        for sb in subs:
            sl0 = sb.slice
            if isinstance(sl0, ast.Tuple) and len(sl0.elts) == 2:
                first, second = sl0.elts
                if isinstance(first, ast.Slice) and not isinstance(second, ast.Slice):
                    rep.violation(rid, f"get_clusters: zero-vector test `{norm(zt.test)}`", f"`{norm(sb)}` is a cartesian *column* of the cell, not the basis vector {norm(second)} "
                                  "(rows): in a skewed cell a zero basis vector is not detected (singular matrix later) and a zero column is mistaken for one", M.where(GC, zt))
                    continue
                idx = norm(first)
            else:
                idx = norm(sl0)
            if pidx and idx not in pidx:
                rep.violation(rid, f"get_clusters: zero-vector test `{norm(zt.test)}`", f"tests basis vector `{idx}` but the periodicity flag of `{sorted(pidx)}`", M.where(GC, zt))
            else:
                rep.ok(rid, f"the zero test reads basis row `{idx}`, the same index as the periodicity flag")
    loops = [t for t, pol in conds if isinstance(t, ast.For) and pol is True]
    ifs0 = [t for t, pol in conds if isinstance(t, ast.If)]
    guard_node = cfg.node_of[id(loops[0])] if loops else (cfg.node_of[id(ifs0[0])] if ifs0 else n)
    need = []
    for m, d in cfg.g.nodes(data=True):
        s = d["ast"]
        if s is None:
            continue
        for c in walk_own(s):
            if isinstance(c, ast.Call) and isinstance(c.func, ast.Attribute) and c.func.attr in (
                    "get_scaled_positions", "wrap", "get_distances", "get_region", "center"):
                need.append((m, c))
    rep.count("cell_dependent_operations", len(need))
    for m, c in need:
        if cfg.dominates(guard_node, m) and not cfg.reaches(m, guard_node):
            rep.ok(rid, f"guard dominates `{norm(c)[:40]}`")
        else:
            rep.violation(rid, f"get_clusters: `{norm(c)[:40]}` before the guard", "an operation needing an invertible cell can run before "
                          "the zero-vector check: the failure is then not the documented ValueError", M.where(GC, c))


# ----------------------------------------------------------------------------- R01.7
def r01_7(rep, M, rid):
    fq = SBC + "._merge_clusters.merge"
    fn = M.func(fq)
    fl = Flow(fn)
    calls = M.calls_to(fq, CLUSTER_INIT)
    if not calls:
        raise AnalysisError("merge: no Cluster(...) construction")
    for call in calls:
        b = M.bind_args(CLUSTER_INIT, call)
        at = fl.node_of(call)
        sp, idx = b.get("species"), b.get("indices")
        if sp is None or idx is None:
            raise AnalysisError("merge: Cluster(...) without indices/species")
        sp_sl = fl.slice(sp, at)
        owners = set()
        for e in sp_sl["exprs"]:
            for x in ast.walk(e):
                if isinstance(x, ast.Attribute) and x.attr == "species" and isinstance(x.value, ast.Name):
                    owners.add(x.value.id)
        if not owners:
            rep.violation(rid, "merge: species of the merged cluster", f"`{norm(sp)}` is not taken from the merged clusters", M.where(fq, call))
            continue
        idx_sl = fl.slice(idx, at)
        problems = []
        n_reads = 0
        for e in idx_sl["exprs"]:
            filtered_ids = set()
            for x in ast.walk(e):
                # filter(lambda i: numbers[i] in T.species, X.indices)
                if isinstance(x, ast.Call) and isinstance(x.func, ast.Name) and x.func.id == "filter" and len(x.args) == 2 \
                        and isinstance(x.args[0], ast.Lambda):
                    body = x.args[0].body
                    if isinstance(body, ast.Compare) and isinstance(body.ops[0], ast.In) and isinstance(body.comparators[0], ast.Attribute) \
                            and body.comparators[0].attr == "species" and norm(body.comparators[0].value) in owners:
                        for y in ast.walk(x.args[1]):
                            filtered_ids.add(id(y))
                # comprehension with `if numbers[i] in T.species`
                if isinstance(x, (ast.ListComp, ast.SetComp, ast.GeneratorExp)):
                    for g in x.generators:
                        if any(isinstance(c, ast.Compare) and isinstance(c.ops[0], ast.In) and isinstance(c.comparators[0], ast.Attribute)
                               and c.comparators[0].attr == "species" and norm(c.comparators[0].value) in owners for c in g.ifs):
                            for y in ast.walk(g.iter):
                                filtered_ids.add(id(y))
            for x in ast.walk(e):
                if isinstance(x, ast.Attribute) and x.attr == "indices" and isinstance(x.value, ast.Name):
                    n_reads += 1
                    if x.value.id in owners:
                        continue
                    if id(x) in filtered_ids:
                        continue
                    problems.append(norm(x))
        # `owners` must be a single cluster variable chosen consistently (target), or both
        if problems:
            rep.violation(rid, "merge: indices of the merged cluster", f"{sorted(set(problems))} enter the merged index set without the "
                          f"species filter `in {sorted(owners)[0]}.species`, while the species of the result are those of {sorted(owners)}: "
                          "atoms whose element is not in the cluster's species", M.where(fq, call))
        elif n_reads < 2:
            rep.violation(rid, "merge: indices of the merged cluster", "the merged index set does not combine both clusters", M.where(fq, call))
        else:
            rep.ok(rid, f"merge: indices = {sorted(owners)}.indices + species-filtered other indices; species = {norm(sp)}")
    # primary construction site: species from the atomic numbers of the same index collection
    for call in M.calls_to(GC, CLUSTER_INIT):
        fl2 = Flow(M.func(GC))
        b = M.bind_args(CLUSTER_INIT, call)
        at = fl2.node_of(call)
        sp, idx = b.get("species"), b.get("indices")
        sl = fl2.slice(sp, at, follow_mutations=False)
        subs = [x for e in sl["exprs"] for x in ast.walk(e) if isinstance(x, ast.Subscript)]
        ok = False
        for s in subs:
            base = fl2.slice(s.value, at, follow_mutations=False)
            from_numbers = any(isinstance(c, ast.Call) and isinstance(c.func, ast.Attribute) and c.func.attr == "get_atomic_numbers"
                               for e in base["exprs"] for c in ast.walk(e))
            same_idx = isinstance(idx, ast.Name) and any(isinstance(y, ast.Name) and y.id == idx.id for y in ast.walk(s.slice))
            if from_numbers and same_idx:
                ok = True
        if ok:
            rep.ok(rid, f"get_clusters: species = set(atomic_numbers[{norm(idx)}]) of the same index collection")
        else:
            rep.violation(rid, "get_clusters: species of a new cluster", f"`{norm(sp)}` is not the set of atomic numbers of the cluster's "
                          "own indices", M.where(GC, call))


# ----------------------------------------------------------------------------- R01.8
def r01_8(rep, M, rid):
    fq = SBC + "._clean_clusters"
    fn = M.func(fq)
    fl = Flow(fn)
    stores = [n for n in M.own_nodes(fq) if isinstance(n, ast.Assign) and any(isinstance(t, ast.Attribute) and t.attr == "indices" for t in n.targets)]
    gcl = M.calls_to(fq, GEO + ".get_clusters")
    if not gcl:
        raise AnalysisError("_clean_clusters: call of matid.geometry.get_clusters not found")
    call = gcl[0]
    b = M.bind_args(GEO + ".get_clusters", call)
    at = fl.node_of(call)
    # own matrix
    recv = None
    m_ok = False
    for c in fl.calls_in_slice(b["dist_matrix"], at):
        if isinstance(c.func, ast.Attribute) and c.func.attr == "_get_distance_matrix_radii_mic":
            recv = norm(c.func.value)
            m_ok = True
    thr_ok = "bond_threshold" in fl.slice(b["threshold"], at)["params"] if "threshold" in b else False
    ms = b.get("min_samples")
    ms_ok = ms is None or (isinstance(ms, ast.Constant) and ms.value == 1)
    if m_ok and thr_ok and ms_ok:
        rep.ok(rid, f"_clean_clusters: components of {recv}'s own radii-corrected matrix at bond_threshold, min_samples=1")
    else:
        rep.violation(rid, "_clean_clusters: clustering call", f"`{norm(call)[:90]}`: own matrix {m_ok}, bond_threshold {thr_ok}, "
                      f"min_samples=1 {ms_ok}", M.where(fq, call))
    # a rewrite is either `cluster.indices = <selection>` or a new Cluster(<selection>, ...) that takes the place of the old one
    rewrites = [(s, s.value, norm(next(t for t in s.targets if isinstance(t, ast.Attribute)).value)) for s in stores]
    cinit = M.find_method("matid.clustering.cluster.Cluster", "__init__")
    for c2 in [c for c in M.own_nodes(fq) if isinstance(c, ast.Call) and cinit in M.callees_of_call(fq, c)]:
        iv = M.bind_args(cinit, c2).get("indices")
        olds = {norm(x.value) for x in ast.walk(iv) if isinstance(x, ast.Attribute) and x.attr == "indices"} if iv is not None else set()
        if iv is not None and len(olds) == 1:
            rewrites.append((c2, iv, olds.pop()))
    inplace = [n for n in M.own_nodes(fq) if (isinstance(n, ast.Delete) and any(isinstance(x, ast.Attribute) and x.attr == "indices" for t2 in n.targets for x in ast.walk(t2)))
               or (isinstance(n, ast.Call) and isinstance(n.func, ast.Attribute) and n.func.attr in ("pop", "remove", "clear") and isinstance(n.func.value, ast.Attribute)
                   and n.func.value.attr == "indices")]
    if not rewrites and inplace:
        raise AnalysisError(f"_clean_clusters: atoms are removed from the index list in place (`{norm(inplace[0])[:60]}`): idiom not modelled")
    if not rewrites:
        rep.violation(rid, "_clean_clusters: index rewrite", "dangling atoms are never removed (no store to cluster.indices, no cluster rebuilt "
                      "from a selection of its indices)", M.where(fq))
        return
    for s, v, recvn0 in rewrites:
        at2 = fl.node_of(s)

        class _T:      # the object whose indices are rewritten
            value = ast.parse(recvn0, mode="eval").body
        t = _T
        # strip .tolist() / list()
        while isinstance(v, ast.Call) and ((isinstance(v.func, ast.Attribute) and v.func.attr == "tolist") or
                                           (isinstance(v.func, ast.Name) and v.func.id == "list" and v.args)):
            v = v.func.value if isinstance(v.func, ast.Attribute) else v.args[0]
        construct = f"_clean_clusters: {norm(s)[:80]}"
        if not isinstance(v, ast.Subscript):
            raise AnalysisError(f"_clean_clusters: rewrite `{norm(s)}` is not a selection old[component]")
        sel_sl = fl.slice(v.slice, at2)
        from_call = any(c is call for e in sel_sl["exprs"] for c in ast.walk(e))
        pick = [c for e in sel_sl["exprs"] for c in ast.walk(e) if isinstance(c, ast.Call) and isinstance(c.func, ast.Name) and c.func.id in ("max", "min")]
        pick += [x for e in sel_sl["exprs"] for x in ast.walk(e) if isinstance(x, ast.Subscript) and isinstance(x.slice, (ast.Constant, ast.UnaryOp))
                 and isinstance(x.value, ast.Call) and isinstance(x.value.func, ast.Name) and x.value.func.id == "sorted"]
        concat = [norm(c) for e in sel_sl["exprs"] for c in ast.walk(e) if isinstance(c, ast.Call) and (
            (M.ext_name(fq, c.func) or "").endswith(("concatenate", "hstack", "chain")) or (isinstance(c.func, ast.Name) and c.func.id == "sum"))]
        concat += [norm(x) for e in sel_sl["exprs"] for x in ast.walk(e) if isinstance(x, ast.BinOp) and isinstance(x.op, ast.Add)]
        largest = any(isinstance(c, ast.Call) and isinstance(c.func, ast.Name) and c.func.id == "max" for c in pick)
        old = any(isinstance(x, ast.Attribute) and x.attr == "indices" and norm(x.value) == norm(t.value) for x in ast.walk(v.value))
        # the component holds *row numbers* of the cluster's own matrix, which is built in the stored order of `indices`:
        # the selection base must therefore be the indices in exactly that order
        base = v.value
        recvn = norm(t.value)
        same_order = norm(base).replace("numpy.", "np.") in (f"np.array({recvn}.indices)", f"np.asarray({recvn}.indices)", f"{recvn}.indices", f"list({recvn}.indices)")
        if old and not same_order:
            rep.violation(rid, construct + " order", f"the component (row numbers of the matrix built from `{recvn}.indices` as stored) selects from `{norm(base)}`, "
                          "which is in another order: rows are mapped to the wrong atoms, so a dangling atom is kept and a bonded one dropped", M.where(fq, s))
            continue
        if from_call and pick and not concat and old:
            rep.ok(rid, construct + " [exactly one bonded component of the old indices]")
            if not largest:
                rep.note("_clean_clusters keeps one component but not via max(...): 'largest' not established")
        else:
            rep.violation(rid, construct, f"the kept atoms are not exactly one bonded component of the cluster (from clustering: {from_call}, "
                          f"single pick: {bool(pick)}, concatenation: {concat[:1]}, of old indices: {old}): the result can be disconnected",
                          M.where(fq, s))


def r01_8_components(rep, M, rid, shortcut=True):
    """matid.geometry.get_clusters: every returned grouping comes from the DBSCAN labels (no shortcut that could report an empty
    or unclustered group; an empty matrix makes DBSCAN raise, which is how emptied clusters are dropped).
    shortcut=False: the borrowing property never clusters an empty matrix; only the partition clause is borrowed"""
    fq = GEO + ".get_clusters"
    fn = M.func(fq)
    fl = Flow(fn)
    fits = [n for n, d in fl.cfg.g.nodes(data=True) if d["ast"] is not None and any(
        isinstance(c, ast.Call) and isinstance(c.func, ast.Attribute) and c.func.attr in ("fit", "fit_predict") for c in walk_own(d["ast"]))]
    if not fits:
        raise AnalysisError("geometry.get_clusters: DBSCAN fit not found")
    bad = [r for r in fl.cfg.returns if not fl.cfg.all_paths_pass(fl.cfg.entry, r, fits)] if shortcut else []
    if not shortcut:
        pass
    elif bad:
        rs = fl.cfg.stmt(bad[0])
        rep.violation(rid, f"geometry.get_clusters: `{norm(rs)[:60]}`", "a path returns groups without running the clustering: for an empty distance matrix "
                      "(a cluster emptied by overlap resolution) a group is reported instead of the failure that makes the caller drop the cluster, so "
                      "clusters with an empty index list are returned", M.where(fq, rs))
    else:
        rep.ok(rid, "geometry.get_clusters: every return passes through the DBSCAN fit")
    # partition of the labels: each element appended exactly once
    loops = [n for n in ast.walk(fn) if isinstance(n, ast.For) and "enumerate" in norm(n.iter)]
    ok = False
    for lp in loops:
        ifs = [t for t in lp.body if isinstance(t, ast.If)]
        if len(ifs) == 1 and ifs[0].orelse and all(any(isinstance(c, ast.Call) and isinstance(c.func, ast.Attribute) and c.func.attr == "append" for c in ast.walk(b))
                                                   for b in (ifs[0].body[0], ifs[0].orelse[0])):
            ok = True
    if not ok:
        # without a branch for noise points: still a partition when no point can be noise, i.e. min_samples is 1 at every call (its default and every
        # in-repo call site), since DBSCAN labels a point -1 only if its neighbourhood (itself included) has fewer than min_samples members
        uncond = any(isinstance(st, ast.Expr) and isinstance(st.value, ast.Call) and isinstance(st.value.func, ast.Attribute) and st.value.func.attr == "append"
                     and isinstance(st.value.func.value, ast.Subscript) for lp in loops for st in lp.body)
        dflt = {a.arg: d for a, d in zip(fn.args.args[len(fn.args.args) - len(fn.args.defaults):], fn.args.defaults)}.get("min_samples")
        d_ok = isinstance(dflt, ast.Constant) and dflt.value == 1
        sites_ok = True
        for q2 in M.functions():
            for c2 in M.calls_to(q2, fq):
                v = M.bind_args(fq, c2).get("min_samples")
                if v is not None and not (isinstance(v, ast.Constant) and v.value == 1):
                    sites_ok = False
        if uncond and d_ok and sites_ok:
            rep.ok(rid, "geometry.get_clusters: every element is appended to the group of its label; no point can be noise because min_samples is 1 at every call")
            return
    if ok:
        rep.ok(rid, "geometry.get_clusters: every element goes to exactly one group (noise points as singletons)")
    else:
        rep.violation(rid, "geometry.get_clusters: grouping", "the labels are not turned into a partition of the elements", M.where(fq))


# ----------------------------------------------------------------------------- R01.9
def forwarded(M, fq, param, callee, cparam, fl=None):
    """-> list of (ok, construct, msg, node)"""
    out = []
    fl = fl or Flow(M.func(fq))
    calls = M.calls_to(fq, callee)
    cname = callee.replace("matid.", "").replace(".__init__", "")
    if not calls:
        raise AnalysisError(f"{fq.split('.')[-1]}: consumer call {cname} vanished")
    for c in calls:
        b = M.bind_args(callee, c)
        construct = f"{fq.split('.')[-1]}: {param} -> {cname}({cparam})"
        if cparam not in b:
            star = [k.value for k in c.keywords if k.arg is None]
            if star and param in fl.slice(star[0], fl.node_of(c))["params"]:
                out.append((True, construct, "", c))
            else:
                out.append((False, construct, f"`{cparam}` is not passed: the callee's default is used and the caller's `{param}` is ignored", c))
            continue
        a = b[cparam]
        sl = fl.slice(a, fl.node_of(c))
        if param in sl["params"]:
            out.append((True, construct, "", c))
        elif isinstance(a, ast.Constant):
            out.append((False, construct, f"`{cparam}` is the literal {a.value!r}: the caller's `{param}` is ignored", c))
        else:
            out.append((False, construct, f"`{cparam}={norm(a)}` is not derived from parameter `{param}`", c))
    return out


def compared(M, fq, param):
    fl = Flow(M.func(fq))
    for n in M.own_nodes(fq):
        if isinstance(n, ast.Compare):
            at = fl.node_of(n)
            for side in [n.left] + n.comparators:
                if isinstance(side, ast.Name) and side.id == param and fl.cfg.entry in fl.rd[at].get(param, ()):
                    return n
    return None


def r01_9(rep, M, rid, cluster_context=False):
    PFI = PF + ".__init__"
    GR = PF + ".get_region"
    table = [
        (GC, "angle_tol", PFI, "angle_tol"),
        (GC, "max_cell_size", GR, "max_cell_size"), (GC, "pos_tol", GR, "pos_tol"),
        (GC, "bond_threshold", GR, "bond_threshold"), (GC, "overlap_threshold", GR, "overlap_threshold"),
        (GC, "merge_threshold", SBC + "._merge_clusters", "merge_threshold"),
        (GC, "merge_radius", SBC + "._localize_clusters", "merge_radius"),
        (GC, "bond_threshold", SBC + "._clean_clusters", "bond_threshold"),
        (GC, "bond_threshold", SBC + "._merge_clusters", "bond_threshold"),
        (GC, "bond_threshold", CLUSTER_INIT, "bond_threshold"),
        (GC, "radii", GEO + ".get_radii", "radii"),
        (GC, "radii", GEO + ".get_distances", "radii"),
        (GC, "radii", CLUSTER_INIT, "radii"),
        (SBC + "._clean_clusters", "bond_threshold", GEO + ".get_clusters", "threshold"),
        (SBC + "._merge_clusters.merge", "bond_threshold", CLUSTER_INIT, "bond_threshold"),
    ]
    if not cluster_context:
        # radii / bond threshold kept on a Cluster only serve its dimensionality shortcut (C13, C03), not the clustering itself
        table = [t for t in table if t[2] != CLUSTER_INIT]
    flows = {}
    for fq, p, callee, cp in table:
        M.func(fq)
        if fq not in flows:
            flows[fq] = Flow(M.func(fq))
        # nested function: parameter may come from the enclosing scope
        params = set(M.params(fq))
        if p not in params:
            # closure variable of the enclosing function: accept a direct name reference
            for c in M.calls_to(fq, callee):
                b = M.bind_args(callee, c)
                construct = f"{fq.split('.')[-1]}: {p} -> {callee.split('.')[-2]}({cp})"
                if cp in b and isinstance(b[cp], ast.Name) and b[cp].id == p:
                    rep.ok(rid, construct + " [closure]")
                else:
                    rep.violation(rid, construct, f"`{cp}` is not the enclosing `{p}`", M.where(fq, c))
            continue
        for ok, construct, msg, node in forwarded(M, fq, p, callee, cp, flows[fq]):
            if ok:
                rep.ok(rid, construct)
            else:
                rep.violation(rid, construct, msg, M.where(fq, node))
    for fq, p in ((SBC + "._merge_clusters", "merge_threshold"), (SBC + "._localize_clusters", "merge_radius")):
        c = compared(M, fq, p)
        if c is not None:
            rep.ok(rid, f"{fq.split('.')[-1]}: decision `{norm(c)[:60]}` uses `{p}`")
        else:
            rep.violation(rid, f"{fq.split('.')[-1]}: use of {p}", f"no comparison against parameter `{p}`: the threshold is not honoured",
                          M.where(fq))
    # seed -> generator, and the seed atom is drawn from it
    draws = [n for n in M.own_nodes(GC) if isinstance(n, ast.Call) and isinstance(n.func, ast.Attribute)
             and isinstance(n.func.value, ast.Attribute) and n.func.value.attr == "rng"]
    if draws:
        rep.ok(rid, f"get_clusters: seed atoms drawn through self.rng ({norm(draws[0])[:50]})")
    else:
        rep.violation(rid, "get_clusters: seed atom choice", "the seed atom is not drawn from the seeded generator", M.where(GC))


# ----------------------------------------------------------------------------- call-local instance state
def call_local_state(rep, M, rid, fq, allowed_config=(), generators_exempt=False):
    """a method that must be a function of its arguments may read self.<attr> only if the same call wrote it on every
    path before (or the attribute is pure configuration set in __init__ and never written here).
    generators_exempt: the borrowing property holds "for any seed", i.e. for every random stream, so a generator that is carried over
    between calls only selects another admissible stream"""
    fn = M.func(fq)
    fl = Flow(fn)
    cq = M.enclosing_class(fq)
    written = {}
    gen_attrs = set()
    if generators_exempt:
        vals = {}
        for s2 in ast.walk(fn):
            if isinstance(s2, ast.Assign) and len(s2.targets) == 1 and isinstance(s2.targets[0], ast.Attribute) and norm(s2.targets[0].value) == "self":
                vals.setdefault(s2.targets[0].attr, []).append(s2.value)
        gen_attrs = {a for a, vs in vals.items() if vs and all(isinstance(v, ast.Call) and (M.ext_name(fq, v.func) or "").startswith(("numpy.random.", "random."))
                                                               for v in vs)}
    for n, d in fl.cfg.g.nodes(data=True):
        s2 = d["ast"]
        if isinstance(s2, (ast.Assign, ast.AugAssign)):
            for t in (s2.targets if isinstance(s2, ast.Assign) else [s2.target]):
                for el in (t.elts if isinstance(t, (ast.Tuple, ast.List)) else [t]):
                    if isinstance(el, ast.Attribute) and isinstance(el.value, ast.Name) and el.value.id == "self":
                        written.setdefault(el.attr, []).append(n)
        if isinstance(s2, ast.Expr) and isinstance(s2.value, ast.Call) and isinstance(s2.value.func, ast.Name) and s2.value.func.id == "setattr" \
                and s2.value.args and norm(s2.value.args[0]) == "self" and isinstance(s2.value.args[1], ast.Constant):
            written.setdefault(s2.value.args[1].value, []).append(n)
    bad = 0
    nread = 0
    for n, d in fl.cfg.g.nodes(data=True):
        s2 = d["ast"]
        if s2 is None:
            continue
        reads = []
        for x in walk_own(s2):
            if isinstance(x, ast.Attribute) and isinstance(x.value, ast.Name) and x.value.id == "self" and isinstance(x.ctx, ast.Load):
                reads.append((x.attr, x))
            if isinstance(x, ast.Call) and isinstance(x.func, ast.Name) and x.func.id in ("getattr", "hasattr") and len(x.args) >= 2 \
                    and norm(x.args[0]) == "self" and isinstance(x.args[1], ast.Constant):
                reads.append((x.args[1].value, x))
            if isinstance(x, ast.Attribute) and isinstance(x.value, ast.Name) and x.value.id == "self" and x.attr == "__dict__":
                reads.append(("__dict__", x))
        for attr, x in reads:
            if cq and M.find_method(cq, attr):
                continue
            nread += 1
            if attr in allowed_config and attr not in written:
                continue
            if attr in gen_attrs:
                continue
            if gen_attrs:
                # state that only decides whether the generator is re-created (`if self._seed != seed: self._seed = seed; self.rng = ...`)
                guards = [t for t in ast.walk(fn) if isinstance(t, ast.If) and any(y is x for y in ast.walk(t.test))]
                if guards and all(isinstance(b, ast.Assign) and len(b.targets) == 1 and isinstance(b.targets[0], ast.Attribute)
                                  and norm(b.targets[0].value) == "self" and b.targets[0].attr in gen_attrs | {attr}
                                  for t in guards for b in t.body + t.orelse):
                    continue
            w = [m for m in written.get(attr, []) if m != n]
            if w and fl.cfg.all_paths_pass(fl.cfg.entry, n, w):
                continue
            bad += 1
            rep.violation(rid, f"{fq.split('.')[-1]}: read of self.{attr}", f"`{norm(x)[:60]}` reads instance state that this call has not (on every "
                          "path) written before: the result depends on earlier calls on the same object, not only on (structure, parameters, seed)",
                          M.where(fq, x))
    if not bad:
        rep.ok(rid, f"{fq.split('.')[-1]}: all {nread} reads of instance state are preceded by a write in the same call")


# ----------------------------------------------------------------------------- R01.14 non-periodic containment
def r01_14(rep, M, rid):
    """atoms outside the cell along a non-periodic direction must trigger the cell enlargement + centring
    (wrap() never moves non-periodic coordinates, and everything downstream assumes scaled coordinates in [0, 1])"""
    from ..constfold import Folder
    fn = M.func(GC)
    fl = Flow(fn)
    # the block that re-centres the atoms must be entered whenever *some* direction is non-periodic
    cen0 = [c for c in ast.walk(fn) if isinstance(c, ast.Call) and isinstance(c.func, ast.Attribute) and c.func.attr == "center"]
    if cen0:
        outer = [t for t in ast.walk(fn) if isinstance(t, ast.If) and "pbc" in norm(t.test) and any(c is cen0[0] for c in ast.walk(t))]
        if outer:
            g = outer[0].test          # ast.walk is breadth first: the outermost such If comes first
            neg = False
            while isinstance(g, ast.UnaryOp) and isinstance(g.op, ast.Not):
                neg, g = not neg, g.operand
            red = None
            if isinstance(g, ast.Call) and isinstance(g.func, ast.Name) and g.func.id in ("all", "any") and g.args:
                red, inner = g.func.id, g.args[0]
            elif isinstance(g, ast.Call) and isinstance(g.func, ast.Attribute) and g.func.attr in ("all", "any") and not g.args:
                red, inner = g.func.attr, g.func.value
            elif isinstance(g, ast.Call) and (M.ext_name(GC, g.func) or "") in ("numpy.all", "numpy.any") and g.args:
                red, inner = (M.ext_name(GC, g.func)).split(".")[-1], g.args[0]
            if red is not None:
                inv = isinstance(inner, ast.UnaryOp) and isinstance(inner.op, (ast.Invert, ast.Not))
                some_nonperiodic = (red == "all" and neg and not inv) or (red == "any" and not neg and inv)
                if some_nonperiodic:
                    rep.ok(rid, f"get_clusters: the enlargement block runs whenever some direction is non-periodic (`{norm(outer[0].test)}`)")
                else:
                    rep.violation(rid, f"get_clusters: scope of the enlargement `{norm(outer[0].test)}`", "the block that enlarges the cell and re-centres the atoms is entered "
                                  "only for a subset of the structures with a non-periodic direction (e.g. only for fully finite systems): a slab or stack with pbc (T, T, F) whose "
                                  "cell does not enclose the atoms along the non-periodic vector keeps atoms outside the cell, which the region search never sees", M.where(GC, outer[0]))
                    return
    tests = []
    for t in ast.walk(fn):
        if isinstance(t, ast.If) and any(isinstance(s2, ast.Assign) and isinstance(s2.value, ast.Constant) and s2.value.value is True for s2 in t.body) \
                and any(isinstance(s2, ast.AugAssign) and isinstance(s2.op, ast.Mult) for s2 in t.body):
            tests.append(t)
    if len(tests) != 1:
        raise AnalysisError(f"get_clusters: the decision to enlarge the cell along a non-periodic axis was not recognised ({len(tests)} candidates)")
    t = tests[0]
    at = fl.node_of(t)
    conds = fl.cfg.branch_conditions(at)
    nonper = any(isinstance(c, ast.If) and pol is True and isinstance(c.test, ast.UnaryOp) and "pbc" in norm(c.test) for c, pol in conds)
    names = sorted({x.id for x in ast.walk(t.test) if isinstance(x, ast.Name)})
    # every name of the test must be an arithmetic expression over <coords>.max() / <coords>.min() of one scaled coordinate column
    defs = {}
    for nm in names:
        ds = [d for d in ast.walk(fn) if isinstance(d, ast.Assign) and norm(d.targets[0]) == nm]
        if len(ds) != 1:
            raise AnalysisError(f"get_clusters: enlargement test `{norm(t.test)}`: `{nm}` has no single definition")
        defs[nm] = ds[0].value
    seen_red = set()

    def hook(e, env, folder):
        if isinstance(e, ast.Call) and isinstance(e.func, ast.Attribute) and e.func.attr in ("max", "min") and not e.args:
            seen_red.add(e.func.attr)
            return env["__hi"] if e.func.attr == "max" else env["__lo"]
        if isinstance(e, ast.Name) and e.id in defs and e.id not in env:
            return folder.ev(defs[e.id], env)
        return NotImplemented
    F = Folder({"minmax": hook}, what="cell enlargement test")
    grid = [-1.5, -1.2, -0.5, -0.01, 0.0, 0.3, 0.7, 1.0, 1.01, 1.2, 1.5, 2.5]
    witness = None
    for lo in grid:
        for hi in grid:
            if lo > hi:
                continue
            outside = hi > 1 or lo < 0
            if outside and not F.ev(t.test, {"__hi": hi, "__lo": lo}):
                witness = (lo, hi)
                break
        if witness:
            break
    if not seen_red:
        raise AnalysisError(f"get_clusters: enlargement test `{norm(t.test)}` is not a predicate over the min/max scaled coordinate")
    if witness:
        rep.violation(rid, f"get_clusters: enlargement test `{norm(t.test)}`", f"with scaled coordinates spanning [{witness[0]}, {witness[1]}] along a "
                      "non-periodic axis (atoms outside the cell) the test is false: the cell is not enlarged and re-centred, the atoms stay outside "
                      "the cell (wrap() leaves non-periodic coordinates alone), the cell list and the search within the basis never see them: no region, no cluster and no prototype cell for a structure that was merely stored outside its box", M.where(GC, t))
    elif not nonper:
        rep.violation(rid, "get_clusters: enlargement test scope", "the enlargement is not restricted to non-periodic axes", M.where(GC, t))
    else:
        rep.ok(rid, f"get_clusters: `{norm(t.test)}` holds whenever an atom lies outside [0, 1] along a non-periodic axis ({len(grid)}x{len(grid)} sign patterns)")
    cen = [c for c in ast.walk(fn) if isinstance(c, ast.Call) and isinstance(c.func, ast.Attribute) and c.func.attr == "center"]
    # the array whose rows the enlargement scales is the one handed to set_cell
    scaled = {norm(s2.target.value) for s2 in t.body if isinstance(s2, ast.AugAssign) and isinstance(s2.op, ast.Mult) and isinstance(s2.target, ast.Subscript)}
    setc = [c for c in ast.walk(fn) if isinstance(c, ast.Call) and isinstance(c.func, ast.Attribute) and c.func.attr == "set_cell" and c.args and norm(c.args[0]) in scaled]
    if cen and setc:
        rep.ok(rid, "get_clusters: the enlarged cell is set and the atoms are centred in it")
    else:
        rep.violation(rid, "get_clusters: enlargement effect", "the enlarged cell is not applied / atoms are not centred", M.where(GC, t))


# ----------------------------------------------------------------------------- R01.11 localize: all but one
def r01_11(rep, M, rid):
    fq = SBC + "._localize_clusters"
    fn = M.func(fq)
    fl = Flow(fn)
    removes = [c for c in ast.walk(fn) if isinstance(c, ast.Call) and isinstance(c.func, ast.Attribute) and c.func.attr in ("remove", "discard")]
    if not removes:
        rep.violation(rid, "_localize_clusters: removal", "multiply-assigned atoms are never removed from any cluster", M.where(fq))
        return
    for c in removes:
        at = fl.node_of(c)
        conds = fl.cfg.branch_conditions(at)
        loops = [t for t, pol in conds if isinstance(t, ast.For) and pol is True]
        if len(loops) < 2:
            raise AnalysisError("_localize_clusters: removal is not inside (atoms x clusters) loops")
        inner, outer = loops[-1], loops[-2]
        atom = norm(c.args[0])
        # outer loop: every atom with its list of clusters; inner: every cluster of that list
        tv = [x.id for x in ast.walk(outer.target) if isinstance(x, ast.Name)]
        lst = tv[-1] if tv else None
        full_inner = norm(inner.iter) == lst and not any(isinstance(x, (ast.Break, ast.Continue, ast.Return)) for x in ast.walk(inner))
        # the guard: cluster != chosen
        guards = [t for t, pol in conds if isinstance(t, ast.If) and pol is True and isinstance(t.test, ast.Compare)
                  and isinstance(t.test.ops[0], (ast.NotEq, ast.IsNot)) and norm(inner.target) in (norm(t.test.left), norm(t.test.comparators[0]))]
        # the removal has to run for every atom that is in two or more clusters; for an atom in exactly one cluster it removes nothing (the chosen cluster
        # is that one), so a guard is only required not to exclude len >= 2: `> 1`, `>= 2`, `>= 1`, `> 0`, `!= 0`, `!= 1` - or no guard at all
        lenguards = [t for t, pol in conds if isinstance(t, ast.If) and pol is True and "len(" in norm(t.test) and lst and lst in norm(t.test) and isinstance(t.test, ast.Compare)]

        def admits_two_or_more(t):
            c = t.test.comparators[0]
            k = c.value if isinstance(c, ast.Constant) and isinstance(c.value, int) else None
            op = t.test.ops[0]
            return k is not None and ((isinstance(op, ast.Gt) and k <= 1) or (isinstance(op, ast.GtE) and k <= 2) or (isinstance(op, ast.NotEq) and k in (0, 1)))
        multi = [True] if not lenguards or all(admits_two_or_more(t) for t in lenguards) else []
        chosen = None
        if guards:
            g = guards[0].test
            chosen = norm(g.comparators[0]) if norm(g.left) == norm(inner.target) else norm(g.left)
        chosen_ok = False
        if chosen:
            defs = [d for d in ast.walk(outer) if isinstance(d, ast.Assign) and norm(d.targets[0]) == chosen]
            chosen_ok = bool(defs) and all((isinstance(d.value, ast.Subscript) and norm(d.value.value) == lst and isinstance(d.value.slice, ast.Constant)
                                            and d.value.slice.value in (0, 1, -1)) or (isinstance(d.value, ast.Name) and any(
                isinstance(lp, ast.For) and norm(lp.target) == d.value.id and norm(lp.iter) == lst for lp in ast.walk(outer))) for d in defs)
        atom_ok = atom == (tv[0] if tv else None)
        if full_inner and guards and chosen_ok and multi and atom_ok:
            rep.ok(rid, f"_localize_clusters: atom `{atom}` is removed from every cluster of `{lst}` except the one chosen cluster `{chosen}`")
        else:
            rep.violation(rid, "_localize_clusters: removal loop", f"a multiply-assigned atom is not removed from all-but-exactly-one of its clusters "
                          f"(loops over the whole list without break: {full_inner}; guard `cluster != chosen`: {bool(guards)}; chosen is one of the "
                          f"list: {chosen_ok}; only when more than one cluster: {bool(multi)}; removed atom is the shared one: {atom_ok}): clusters stay overlapping",
                          M.where(fq, c))
    # the overlap map enumerates every (atom, cluster) membership
    appends = [c for c in ast.walk(fn) if isinstance(c, ast.Call) and isinstance(c.func, ast.Attribute) and c.func.attr == "append"
               and isinstance(c.func.value, ast.Subscript)]
    ok = False
    for c in appends:
        conds = fl.cfg.branch_conditions(fl.node_of(c))
        loops = [t for t, pol in conds if isinstance(t, ast.For) and pol is True]
        member = [t for t, pol in conds if isinstance(t, ast.If) and pol is True and isinstance(t.test, ast.Compare) and isinstance(t.test.ops[0], ast.In)
                  and norm(t.test.comparators[0]).endswith(".indices")]
        if len(loops) == 2 and member and "range(len(system))" in norm(loops[0].iter) and norm(loops[1].iter) == "clusters" \
                and not any(isinstance(x, (ast.Break, ast.Continue)) for l in loops for x in ast.walk(l)):
            ok = True
    if ok:
        rep.ok(rid, "_localize_clusters: the overlap map records every (atom, cluster) membership")
    else:
        rep.violation(rid, "_localize_clusters: overlap map", "not every (atom, cluster) membership is recorded: some overlaps are never resolved", M.where(fq))


# ----------------------------------------------------------------------------- R01.12 duplicate-free index collections
def r01_12(rep, M, rid):
    for fq, label in ((GC, "get_clusters"), (SBC + "._merge_clusters.merge", "merge")):
        fl = Flow(M.func(fq))
        for call in M.calls_to(fq, CLUSTER_INIT):
            idx = M.bind_args(CLUSTER_INIT, call).get("indices")
            at = fl.node_of(call)
            ok = False
            if isinstance(idx, ast.Name):
                defs = fl.rd[at].get(idx.id, ())
                vals = [v for d in defs for k, v, *_ in [tuple(x) + (None,) for x in fl.def_value(d, idx.id)] if k == "expr"]
                ok = bool(vals) and all(isinstance(v, (ast.Set, ast.SetComp)) or (isinstance(v, ast.Call) and (
                    (isinstance(v.func, ast.Name) and v.func.id in ("set", "frozenset")) or
                    (isinstance(v.func, ast.Attribute) and v.func.attr in ("union", "intersection", "difference") and
                     isinstance(v.func.value, ast.Call) and isinstance(v.func.value.func, ast.Name) and v.func.value.func.id == "set"))) for v in vals)
            elif isinstance(idx, (ast.Set, ast.SetComp)):
                ok = True
            if ok:
                rep.ok(rid, f"{label}: the index collection `{norm(idx)}` of a new cluster is a set (duplicate-free)")
            else:
                rep.violation(rid, f"{label}: index collection of a new cluster", f"`{norm(idx)}` is not built as a set: the seed atom or shared "
                              "atoms can appear twice in Cluster.indices", M.where(fq, call))
    ci = M.func(CLUSTER_INIT)
    if any(isinstance(c, ast.Call) and isinstance(c.func, ast.Name) and c.func.id == "list" for c in ast.walk(ci)):
        rep.ok(rid, "Cluster.__init__ stores the indices as a list of the given collection")


# ----------------------------------------------------------------------------- R01.13 wrapped working copy
def r01_13(rep, M, rid):
    from .c09 import wrapped_states
    fn = M.func(GC)
    cfg, IN = wrapped_states(M, fn)
    fl = Flow(fn)
    need = []
    for n, d in fl.cfg.g.nodes(data=True):
        s = d["ast"]
        if s is None:
            continue
        for c in walk_own(s):
            if isinstance(c, ast.Call) and ((GEO + ".get_distances") in M.callees_of_call(GC, c) or (PF + ".get_region") in M.callees_of_call(GC, c)):
                need.append((n, c))
    for n, c in need:
        a0 = c.args[0] if c.args else None
        name = norm(c.func).split(".")[-1]
        if isinstance(a0, ast.Name) and a0.id in (IN[n] or ()):
            rep.ok(rid, f"get_clusters: `{a0.id}` is wrapped when handed to {name}")
        else:
            rep.violation(rid, f"get_clusters: {name}({norm(a0) if a0 is not None else ''}, ...)", "the working copy is not known to be wrapped here: "
                          "the minimum-image distances and the cell list assume atoms inside the cell, so unwrapped inputs give other clusters "
                          "than their wrapped equivalent", M.where(GC, c))
    if len(need) < 2:
        raise AnalysisError("get_clusters: get_distances / get_region calls not found")


def run(rep, ctx):
    M = ctx.model
    E = Effects(M)
    rep.explanation = ("effect analysis (input immutability, no escape), nondeterminism-source scan over the call graph reachable "
                       "from get_clusters, must-pass-through queries on its CFG, def-use rules for index rewrites / species / "
                       "cleaning / parameter forwarding, literal pbc of prototype cells, signature conformance")
    rep.assumptions = ["disjointness and connectivity of the returned clusters for concrete inputs are not decided",
                       "numpy/ASE API tables of vstatic.effects; CPython hashing of ints is deterministic"]
    rep.rule("R01.1", "the caller's structure is never mutated, neither by get_clusters nor through a returned cluster that keeps it")
    rep.rule("R01.2", "no nondeterminism source reachable; the generator is built from `seed`")
    rep.rule("R01.3", "every path runs merge -> localize -> clean in this order, each on the previous result, and returns the last")
    rep.rule("R01.4", "after merging, index rewrites only shrink a cluster")
    rep.rule("R01.5", "prototype cells are periodic in >= 2 directions; every Cluster gets a region")
    rep.rule("R01.6", "the zero-vector ValueError guard dominates every operation needing an invertible cell")
    rep.rule("R01.7", "merge keeps only atoms whose element is in the species of the merged cluster")
    rep.rule("R01.8", "cleaning keeps exactly one bonded component of the cluster's own matrix")
    rep.rule("R01.9", "every public parameter of get_clusters reaches its consumer")
    rep.rule("R01.10", "call signatures conform on the reachable call graph")
    rep.rule("R01.11", "localisation removes a shared atom from all but exactly one of its clusters")
    rep.rule("R01.12", "index collections of new clusters are sets (duplicate-free)")
    rep.rule("R01.13", "distances and region search run on the wrapped working copy")
    with rep.guard("R01.1"):
        r01_1(rep, M, E, "R01.1")
        r01_1_escape(rep, M, E, "R01.1")
    with rep.guard("R01.2"):
        r01_2(rep, M, "R01.2")
        call_local_state(rep, M, "R01.2", GC)
    with rep.guard("R01.3"):
        r01_3(rep, M, "R01.3")
    with rep.guard("R01.4"):
        r01_4(rep, M, "R01.4")
    with rep.guard("R01.5"):
        r01_5(rep, M, "R01.5")
    with rep.guard("R01.6"):
        r01_6(rep, M, "R01.6")
    with rep.guard("R01.7"):
        r01_7(rep, M, "R01.7")
    with rep.guard("R01.8"):
        r01_8(rep, M, "R01.8")
        r01_8_components(rep, M, "R01.8")
    with rep.guard("R01.9"):
        r01_9(rep, M, "R01.9")
    with rep.guard("R01.10"):
        sigs.run(rep, M, "R01.10", scope=M.reachable([GC]))
    with rep.guard("R01.11"):
        r01_11(rep, M, "R01.11")
    with rep.guard("R01.12"):
        r01_12(rep, M, "R01.12")
    with rep.guard("R01.13"):
        r01_13(rep, M, "R01.13")
    rep.rule("R01.15", "every exception handler on the paths of get_clusters is a confirmed one (nothing swallows or converts failures)")
    with rep.guard("R01.15"):
        from .. import handlers
        handlers.check(rep, M, "R01.15", M.reachable([GC]))
        handlers.check_raises(rep, M, "R01.15", M.reachable([GC]), GC.split(".")[-1])
        from . import c04 as _c04
        _c04.builders_total(rep, M, "R01.15")
    rep.rule("R01.16", "the geometry helpers the clustering rests on (get_distances, displacement-tensor wrapper, get_radii, bond clustering) satisfy their own rules (shared with C10/C19)")
    with rep.guard("R01.16"):
        from . import shared as _sh
        _sh.distances(rep, ctx.model, "R01.16")
        _sh.radii(rep, ctx.model, "R01.16")
    rep.floor("R01.15", 8)
    rep.floor("R01.11", 2)
    rep.floor("R01.12", 2)
    rep.floor("R01.13", 2)
    rep.floor("R01.1", 2)
    rep.floor("R01.3", 5)
    rep.floor("R01.4", 2)
    rep.floor("R01.5", 6)
    rep.floor("R01.6", 4)
    rep.floor("R01.7", 2)
    rep.floor("R01.8", 2)
    rep.floor("R01.9", 13)
    rep.floor("R01.10", 60)


META = {
    "level": "other",
    "text": "static necessary conditions of the SBC contract, each holding on every path and for every input: the argument is "
            "only read through fresh-value getters (effect analysis), no nondeterminism source is reachable and the generator "
            "is seeded from `seed`, the pipeline order merge -> localize -> clean is a must-pass-through property of the CFG, "
            "clusters only shrink after merging, prototype cells are built periodic in >= 2 directions, the zero-vector guard "
            "dominates the cell-dependent operations, merge filters by species, cleaning keeps one component, every public "
            "parameter reaches its consumer. Disjointness/connectivity on concrete inputs is not decided."
            " Also: instance state is call-local (no result depends on earlier calls), localisation removes a shared atom from all but one cluster, index collections are sets, distances/region search run on the wrapped copy, atoms outside the cell along non-periodic axes always trigger the enlargement (test folded on a grid of sign patterns), and every exception handler on the reachable paths is one of a confirmed table.",
    "note": "trusted: CPython ast; the repository model (call resolution, receiver typing); API tables for ASE/numpy mutators "
            "and fresh-value getters; deterministic hashing of ints.",
    "technique": "effect/alias analysis + must-pass-through CFG queries + def-use forwarding + nondeterminism-source scan",
}
