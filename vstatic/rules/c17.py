"""C17 - classifier output is consistent with dimensionality and with its own region.

No pinned test runs the classifier at all, so every mutation of it passes the suite.
"""
import ast

from ..cfg import walk_own
from ..dataflow import Flow
from ..effects import Effects, MUTATORS
from ..model import norm
from ..report import AnalysisError
from . import c01

CLS = "matid.classification.classifier.Classifier"
FQ = CLS + ".classify"
CLF = "matid.classification.classifications"
GEO = "matid.geometry.geometry"
UNK = "?"
REQUIRED = {None: "Unknown", 0: "Class0D", 1: "Class1D", 2: "Class2D", 3: "Class3D"}


# ----------------------------------------------------------------------------- R17.1 dispatch
class Dispatch:
    def __init__(self, M):
        self.M = M
        self.classes = {q.rsplit(".", 1)[1]: q for q in M.classes() if q.startswith(CLF + ".")}

    def cls_of_call(self, v):
        if isinstance(v, ast.Call):
            r = self.M.resolve(FQ, v.func)
            if isinstance(r, str) and r in self.M.classes() and r.startswith(CLF + "."):
                return r
        return None

    def ev_cond(self, test, env):
        if isinstance(test, ast.Compare) and len(test.ops) == 1 and isinstance(test.left, ast.Name) and test.left.id in env:
            v = env[test.left.id]
            op, rhs = test.ops[0], test.comparators[0]
            if isinstance(rhs, ast.Constant) and v is not UNK and not isinstance(v, str):
                c = rhs.value
                if isinstance(op, ast.Is):
                    return v is c
                if isinstance(op, ast.IsNot):
                    return v is not c
                if isinstance(op, ast.Eq):
                    return v == c
                if isinstance(op, ast.NotEq):
                    return v != c
                if v is not None and c is not None:
                    if isinstance(op, ast.Lt):
                        return v < c
                    if isinstance(op, ast.LtE):
                        return v <= c
                    if isinstance(op, ast.Gt):
                        return v > c
                    if isinstance(op, ast.GtE):
                        return v >= c
        if isinstance(test, ast.BoolOp):
            vals = [self.ev_cond(t, env) for t in test.values]
            if isinstance(test.op, ast.And):
                if any(v is False for v in vals):
                    return False
                if all(v is True for v in vals):
                    return True
            else:
                if any(v is True for v in vals):
                    return True
                if all(v is False for v in vals):
                    return False
        if isinstance(test, ast.UnaryOp) and isinstance(test.op, ast.Not):
            v = self.ev_cond(test.operand, env)
            return UNK if v is UNK else (not v)
        return UNK

    def run(self, stmts, env, out, tracked):
        """enumerate paths; out collects (class qual | None | UNK, return stmt)"""
        if not stmts:
            return [env]
        s, rest = stmts[0], stmts[1:]
        res = []
        if isinstance(s, ast.If):
            c = self.ev_cond(s.test, env)
            branches = []
            if c is True or c is UNK:
                branches.append(s.body)
            if c is False or c is UNK:
                branches.append(s.orelse)
            for b in branches:
                for e2 in self.run(list(b), dict(env), out, tracked):
                    res += self.run(rest, e2, out, tracked)
            return res
        if isinstance(s, ast.Return):
            v = s.value
            k = self.cls_of_call(v)
            if k:
                out.append((k, s))
            elif isinstance(v, ast.Name):
                out.append((env.get(v.id, UNK), s))
            elif v is None or (isinstance(v, ast.Constant) and v.value is None):
                out.append((None, s))
            else:
                out.append((UNK, s))
            return []
        if isinstance(s, ast.Raise):
            return []
        if isinstance(s, ast.Assign) and len(s.targets) == 1 and isinstance(s.targets[0], ast.Name):
            t, v = s.targets[0].id, s.value
            k = self.cls_of_call(v)
            if k:
                env[t] = k
            elif isinstance(v, ast.Constant):
                env[t] = v.value
            elif t in tracked:
                env[t] = UNK
            elif t in env:
                env[t] = UNK
            return self.run(rest, env, out, tracked)
        if isinstance(s, (ast.For, ast.While)):
            for n in ast.walk(s):
                if isinstance(n, ast.Assign):
                    for tg in n.targets:
                        if isinstance(tg, ast.Name) and tg.id in tracked:
                            raise AnalysisError(f"classify: tracked variable `{tg.id}` assigned inside a loop (dispatch not modelled)")
                if isinstance(n, ast.Return):
                    raise AnalysisError("classify: return inside a loop (dispatch not modelled)")
            return self.run(rest, env, out, tracked)
        if isinstance(s, ast.Try):
            return self.run(list(s.body) + list(s.orelse) + list(s.finalbody) + rest, env, out, tracked)
        if isinstance(s, ast.With):
            return self.run(list(s.body) + rest, env, out, tracked)
        return self.run(rest, env, out, tracked)


def r17_1(rep, M, rid):
    fn = M.func(FQ)
    fl = Flow(fn)
    D = Dispatch(M)
    for need in ("Unknown", "Class0D", "Atom", "Class1D", "Class2D", "Class3D", "Surface", "Material2D"):
        if need not in D.classes:
            raise AnalysisError(f"class {need} missing in classifications.py")
    # the dimensionality variable: result of matid.geometry.get_dimensionality on the wrapped copy
    dim_assign = [s for s in fn.body if isinstance(s, ast.Assign) and isinstance(s.value, ast.Call)
                  and (GEO + ".get_dimensionality") in M.callees_of_call(FQ, s.value)]
    if len(dim_assign) != 1 or not isinstance(dim_assign[0].targets[0], ast.Name):
        raise AnalysisError("classify: the assignment `dimensionality = matid.geometry.get_dimensionality(...)` not found at top level")
    dvar = dim_assign[0].targets[0].id
    idx = fn.body.index(dim_assign[0])
    pre_env = {}
    for s in fn.body[:idx]:
        if isinstance(s, ast.Assign) and isinstance(s.targets[0], ast.Name) and isinstance(s.value, ast.Constant):
            pre_env[s.targets[0].id] = s.value.value
    # nothing is returned before the dimensionality is known
    early = [r for s0 in fn.body[:idx] for r in ast.walk(s0) if isinstance(r, ast.Return)]
    for r in early:
        rep.violation(rid, f"classify: `{norm(r)[:60]}` before the dimensionality is evaluated", "this return does not depend on the dimensionality of the "
                      "structure: e.g. a single atom in a small periodic cell bonds to its own images (primitive fcc/bcc cells are 3D, one-atom sheets 2D, "
                      "chains 1D) and must get the class of that dimensionality", M.where(FQ, r))
    if not early:
        rep.ok(rid, "classify: no return precedes the evaluation of the dimensionality")
    # which variable is returned
    result_vars = {r.value.id for r in ast.walk(fn) if isinstance(r, ast.Return) and isinstance(r.value, ast.Name)}
    tracked = set(result_vars) | {dvar}
    for d in (None, 0, 1, 2, 3):
        out = []
        env = dict(pre_env)
        env[dvar] = d
        fell = D.run(list(fn.body[idx + 1:]), env, out, tracked)
        if fell:
            out.append((None, fn))       # falling off the end returns None
        got = sorted({(o[0].rsplit(".", 1)[1] if isinstance(o[0], str) and o[0] != UNK else str(o[0])) for o in out})
        construct = f"classify: dimensionality {d!r} -> {got}"
        want = D.classes[REQUIRED[d]]
        bad = [o for o in out if not (isinstance(o[0], str) and o[0] != UNK and M.is_subclass(o[0], want))]
        if not out:
            rep.violation(rid, f"classify: dimensionality {d!r}", "no return on this path", M.where(FQ))
        elif bad:
            b = bad[0]
            rep.violation(rid, f"classify: dimensionality {d!r}", f"can return {got}; required {REQUIRED[d]} (or a refinement of it)"
                          + ("; a path returns None" if any(o[0] is None for o in bad) else ""),
                          M.where(FQ, b[1]))
        else:
            # cross-contamination: a class of another dimensionality
            others = [D.classes[REQUIRED[x]] for x in REQUIRED if x != d]
            wrong = [o for o in out if any(M.is_subclass(o[0], w) for w in others)]
            if wrong:
                rep.violation(rid, f"classify: dimensionality {d!r}", f"returns {got}", M.where(FQ, wrong[0][1]))
            else:
                rep.ok(rid, construct)
    # Atom exactly under n_atoms == 1
    atom_sites = [n for n in M.own_nodes(FQ) if isinstance(n, ast.Call) and D.cls_of_call(n) == D.classes["Atom"]]
    if not atom_sites:
        rep.violation(rid, "classify: Atom", "a single atom is never classified as Atom", M.where(FQ))
    for c in atom_sites:
        conds = fl.cfg.branch_conditions(fl.node_of(c))
        ok = False
        for t, pol in conds:
            if pol is True and isinstance(t, ast.If) and isinstance(t.test, ast.Compare) and isinstance(t.test.ops[0], ast.Eq) \
                    and isinstance(t.test.comparators[0], ast.Constant) and t.test.comparators[0].value == 1:
                sl = fl.slice(t.test.left, fl.node_of(t))
                if any(isinstance(x, ast.Call) and isinstance(x.func, ast.Name) and x.func.id == "len" for e in sl["exprs"] for x in ast.walk(e)):
                    ok = True
        if ok:
            rep.ok(rid, "classify: Atom exactly under len(system) == 1")
        else:
            rep.violation(rid, "classify: Atom guard", "Atom is not constructed exactly under `number of atoms == 1`", M.where(FQ, c))
    # the dimensionality is that of the wrapped copy
    call = dim_assign[0].value
    a0 = call.args[0] if call.args else None
    inp = M.params(FQ)[0]
    okw = False
    if isinstance(a0, ast.Name):
        from .c09 import wrapped_states
        cfg, IN = wrapped_states(M, fn)
        n = fl.node_of(dim_assign[0])
        okw = a0.id in (IN[n] or ()) and inp not in fl.slice(a0, n)["params"] - {inp} and a0.id != inp
    # every other geometry call in classify works on the wrapped copy as well; only the Classification objects carry the input
    for callee in (GEO + ".get_distances", GEO + ".get_center_of_mass", CLS + ".cross_validate_region"):
        for c in M.calls_to(FQ, callee):
            arg = c.args[0] if c.args else None
            if isinstance(arg, ast.Call) and isinstance(arg.func, ast.Attribute) and arg.func.attr == "copy" and not arg.args and isinstance(arg.func.value, ast.Name):
                arg = arg.func.value      # a copy of the working copy is as good as the working copy
            nn = fl.node_of(c)
            good = isinstance(arg, ast.Name) and arg.id != inp and inp in fl.slice(arg, nn)["params"] and (
                arg.id in (IN[nn] or ()) or any(isinstance(x, ast.Name) and x.id in (IN[nn] or ()) for e in fl.slice(arg, nn)["exprs"] for x in ast.walk(e)))
            if good:
                rep.ok(rid, f"classify: {callee.split('.')[-1]}({norm(arg)}) works on the wrapped copy")
            else:
                rep.violation(rid, f"classify: {callee.split('.')[-1]}({norm(arg) if arg is not None else ''})", "is not given the wrapped working copy: with atoms "
                              "stored several cells away the minimum-image distances are too long, the structure falls apart and the class no longer matches the "
                              "dimensionality of the wrapped structure", M.where(FQ, c))
    if okw:
        rep.ok(rid, f"classify: dimensionality is evaluated on the wrapped copy `{a0.id}`")
    else:
        rep.violation(rid, "classify: dimensionality subject", f"`{norm(a0) if a0 else None}` is not the wrapped copy of the input",
                      M.where(FQ, call))


# ----------------------------------------------------------------------------- R17.2 guards
def r17_2(rep, M, rid):
    fn = M.func(FQ)
    fl = Flow(fn)
    D = Dispatch(M)
    sites = [(n, D.cls_of_call(n)) for n in M.own_nodes(FQ) if isinstance(n, ast.Call)
             and D.cls_of_call(n) in (D.classes["Surface"], D.classes["Material2D"])]
    if len(sites) < 2:
        rep.violation(rid, "classify: refinements", "Surface and Material2D are not both constructed", M.where(FQ))
    for call, k in sites:
        name = k.rsplit(".", 1)[1]
        at = fl.node_of(call)
        conds = fl.cfg.branch_conditions(at)
        region = call.args[1] if len(call.args) > 1 else next((kw.value for kw in call.keywords if kw.arg == "region"), None)
        if region is None or (isinstance(region, ast.Constant) and region.value is None):
            rep.violation(rid, f"classify: {name}(...) region", "constructed without the region: prototype_cell / outliers are undefined",
                          M.where(FQ, call))
            continue
        rname = norm(region)
        notnone = any(pol is True and isinstance(t, ast.If) and isinstance(t.test, ast.Compare) and isinstance(t.test.ops[0], ast.IsNot)
                      and norm(t.test.left) == rname for t, pol in conds)
        # conjunction members
        members = []
        for t, pol in conds:
            if pol is True and isinstance(t, ast.If):
                members += t.test.values if isinstance(t.test, ast.BoolOp) and isinstance(t.test.op, ast.And) else [t.test]
        # a disjunction guarantees none of its disjuncts, a negation the opposite: such members establish nothing
        members = [m for m in members if not (isinstance(m, ast.BoolOp) and isinstance(m.op, ast.Or)) and not (isinstance(m, ast.UnaryOp) and isinstance(m.op, ast.Not))]
        cov = per = False
        strict_cov = False
        for m in members:
            sl = fl.slice(m, at)
            for e in sl["exprs"]:
                for x in ast.walk(e):
                    if isinstance(x, ast.Compare) and isinstance(x.ops[0], ast.Gt) and \
                            isinstance(x.comparators[0], ast.Attribute) and x.comparators[0].attr == "min_coverage":
                        strict_cov = True
                    if isinstance(x, ast.Compare) and isinstance(x.ops[0], (ast.GtE, ast.Gt)) and \
                            isinstance(x.comparators[0], ast.Attribute) and x.comparators[0].attr == "min_coverage":
                        # numerator/denominator: basis atoms of the region / all atoms
                        s2 = fl.slice(x.left, at)
                        has_div = any(isinstance(y, ast.BinOp) and isinstance(y.op, ast.Div) for e2 in s2["exprs"] for y in ast.walk(e2))
                        has_basis = any(isinstance(y, ast.Call) and isinstance(y.func, ast.Attribute) and y.func.attr == "get_basis_indices"
                                        and norm(y.func.value) == rname for e2 in s2["exprs"] for y in ast.walk(e2))
                        cov = has_div and has_basis
                    if isinstance(x, ast.Compare) and isinstance(x.ops[0], ast.Eq) and isinstance(x.comparators[0], ast.Constant) \
                            and x.comparators[0].value == 2:
                        s2 = fl.slice(x.left, at)
                        if any(isinstance(y, ast.Call) and isinstance(y.func, ast.Attribute) and y.func.attr == "get_connected_directions"
                               and norm(y.func.value) == rname for e2 in s2["exprs"] for y in ast.walk(e2)):
                            per = True
        is2d = [(t, pol) for t, pol in conds if isinstance(t, ast.If) and isinstance(t.test, ast.Attribute) and t.test.attr == "is_2d"
                and norm(t.test.value) == rname]
        want_pol = (name == "Material2D")
        problems = []
        if not notnone:
            problems.append(f"`{rname} is not None` does not dominate it")
        if not cov:
            problems.append("not guarded by coverage >= self.min_coverage (basis atoms of the region / all atoms)")
        if strict_cov:
            problems.append("coverage is compared with `>`: a region covering exactly min_coverage of the atoms ('at least') is rejected")
        if not per:
            problems.append("not guarded by `exactly two connected directions` of the region")
        if not is2d or is2d[0][1] is not want_pol:
            problems.append(f"the choice is not `{rname}.is_2d` == {want_pol}")
        if problems:
            rep.violation(rid, f"classify: {name}(...) guard", "; ".join(problems), M.where(FQ, call))
        else:
            rep.ok(rid, f"classify: {name}({norm(call.args[0])}, {rname}) under not-None, coverage, periodicity, is_2d={want_pol}")
    # the region searched is the one from the wrapped copy and the shared distances
    cv = M.calls_to(FQ, CLS + ".cross_validate_region")
    if cv:
        rep.ok(rid, "classify: region from cross_validate_region")
    else:
        rep.violation(rid, "classify: region search", "cross_validate_region is not called", M.where(FQ))


# ----------------------------------------------------------------------------- R17.3 partition
def r17_3(rep, M, rid):
    cq = CLF + ".Class2DWithCell"
    M.cls(cq)
    props = {}
    for d in M.cls(cq).body:
        if isinstance(d, ast.FunctionDef) and any(ast.unparse(x) == "property" for x in d.decorator_list):
            props[d.name] = d
    for need in ("basis_indices", "outliers", "prototype_cell"):
        if need not in props:
            raise AnalysisError(f"Class2DWithCell.{need} property missing")

    def basis_call(node):
        return [c for c in ast.walk(node) if isinstance(c, ast.Call) and isinstance(c.func, ast.Attribute)
                and c.func.attr == "get_basis_indices" and norm(c.func.value) == "self.region"]
    b = props["basis_indices"]
    rets = [r for r in ast.walk(b) if isinstance(r, ast.Return)]
    if rets and all(basis_call(r) for r in rets):
        rep.ok(rid, "basis_indices = self.region.get_basis_indices()")
    else:
        rep.violation(rid, "Class2DWithCell.basis_indices", "is not the region's basis indices", M.where(cq + ".basis_indices"))
    o = props["outliers"]
    fl = Flow(o)
    rets = [r for r in ast.walk(o) if isinstance(r, ast.Return)]
    ok = False
    for r in rets:
        sl = fl.slice(r.value, fl.node_of(r))
        diff = [x for e in sl["exprs"] for x in ast.walk(e) if (isinstance(x, ast.BinOp) and isinstance(x.op, ast.Sub))
                or (isinstance(x, ast.Call) and isinstance(x.func, ast.Attribute) and x.func.attr == "difference")]
        full = any(isinstance(x, ast.Call) and isinstance(x.func, ast.Name) and x.func.id == "range" and x.args
                   and norm(x.args[-1]) == "len(self.atoms)" and len(x.args) == 1 for e in sl["exprs"] for x in ast.walk(e))
        basis = any(basis_call(e) for e in sl["exprs"])
        # exactly one difference, whose right operand is the basis set and nothing else: outliers = ALL \\ BASIS
        other_sets = [x for e in sl["exprs"] for x in ast.walk(e) if isinstance(x, ast.Call) and isinstance(x.func, ast.Attribute)
                      and x.func.attr in ("values", "substitutions", "vacancies", "union", "update", "intersection")]
        other_attrs = [x for e in sl["exprs"] for x in ast.walk(e) if isinstance(x, ast.Attribute) and x.attr in ("substitutions", "vacancies")]
        if diff and full and basis and len(diff) == 1 and not other_sets and not other_attrs:
            ok = True
    if ok:
        rep.ok(rid, "outliers = range(len(atoms)) minus the same basis indices")
    else:
        rep.violation(rid, "Class2DWithCell.outliers", "is not the set difference of all atom indices and the region's basis indices: "
                      "basis atoms and outliers do not partition the atoms", M.where(cq + ".outliers"))
    p = props["prototype_cell"]
    if any(isinstance(r, ast.Return) and norm(r.value) == "self.region.cell" for r in ast.walk(p)):
        rep.ok(rid, "prototype_cell = self.region.cell")
    else:
        rep.violation(rid, "Class2DWithCell.prototype_cell", "is not the region's cell", M.where(cq + ".prototype_cell"))
    # constructor stores what it is given
    init = M.func(cq + ".__init__")
    stores = {norm(s.targets[0]): norm(s.value) for s in ast.walk(init) if isinstance(s, ast.Assign)}
    if stores.get("self.region") == "region":
        rep.ok(rid, "Class2DWithCell stores the region it is given")
    else:
        rep.violation(rid, "Class2DWithCell.__init__", "does not store the given region", M.where(cq + ".__init__"))


# ----------------------------------------------------------------------------- R17.4 immutability
def r17_4(rep, M, E, rid):
    inp = M.params(FQ)[0]
    c01.r01_1(rep, M, E, rid, fq=FQ, param=inp)
    # what is handed to the Classification constructors is the input itself (atoms attribute), never mutated anywhere
    n = 0
    for fq in M.functions():
        for node in M.own_nodes(fq):
            if isinstance(node, ast.Call) and isinstance(node.func, ast.Attribute) and node.func.attr in MUTATORS:
                recv = node.func.value
                if isinstance(recv, ast.Attribute) and recv.attr == "atoms":
                    for t in M.types_of(fq, recv.value) or [("obj", "?")]:
                        if t[0] == "obj" and (t[1] == "?" or t[1].startswith(CLF)):
                            n += 1
                            rep.violation(rid, f"{fq.replace('matid.', '')}: {norm(node)[:60]}", "mutates the `atoms` stored in a "
                                          "Classification, which is the caller's structure", M.where(fq, node))
    if not n:
        rep.ok(rid, "no mutator is ever applied to Classification.atoms in the repo")
    # every classification is constructed with the input (not the wrapped working copy)
    D = Dispatch(M)
    ctor = [c for c in M.own_nodes(FQ) if isinstance(c, ast.Call) and D.cls_of_call(c)]
    bad = [c for c in ctor if not (c.args and norm(c.args[0]) == inp)]
    if ctor and not bad:
        rep.ok(rid, f"all {len(ctor)} classifications carry the caller's atoms")
    elif bad:
        rep.violation(rid, f"classify: {norm(bad[0])[:50]}", f"the classification does not carry the input structure `{inp}`", M.where(FQ, bad[0]))


# ----------------------------------------------------------------------------- R17.5 repeatability
def r17_5(rep, M, rid):
    # relative thresholds become absolute by *multiplication* with the reference distance of the structure
    fn0 = M.func(FQ)
    nprod = 0
    for s0 in ast.walk(fn0):
        if isinstance(s0, ast.Assign) and isinstance(s0.targets[0], ast.Attribute) and s0.targets[0].attr in ("abs_pos_tol", "abs_delaunay_threshold") \
                and isinstance(s0.value, ast.BinOp):
            nprod += 1
            if isinstance(s0.value.op, ast.Mult):
                rep.ok(rid, f"classify: `{norm(s0)[:60]}` scales the relative option by a distance of the structure")
            else:
                rep.violation(rid, f"classify: `{norm(s0)[:60]}`", "a relative tolerance is turned into an absolute one by something other than a product with the reference "
                              "distance: the region search runs with a tolerance of the wrong magnitude", M.where(FQ, s0))
    for s0 in ast.walk(fn0):
        if isinstance(s0, ast.AugAssign) and isinstance(s0.target, ast.Attribute) and s0.target.attr in ("abs_pos_tol", "abs_delaunay_threshold"):
            nprod += 1
            if not isinstance(s0.op, ast.Mult):
                rep.violation(rid, f"classify: `{norm(s0)[:60]}`", "a relative tolerance is turned into an absolute one by something other than a product with the reference "
                              "distance", M.where(FQ, s0))
    if nprod < 1:
        raise AnalysisError("classify: scaling of the relative thresholds not recognised")
    reach, hits = c01.nondeterminism(M, [FQ], ())
    rep.count("functions_reachable", len(reach))
    for fq, n, what in hits:
        rep.violation(rid, f"{fq.replace('matid.', '')}: {norm(n)[:70]}", what, M.where(fq, n))
    rep.ok(rid, f"{len(reach)} functions reachable from classify scanned for nondeterminism sources")
    init = M.func(CLS + ".__init__")
    set_in_init = {t.attr for s in ast.walk(init) if isinstance(s, ast.Assign) for t in s.targets
                   if isinstance(t, ast.Attribute) and isinstance(t.value, ast.Name) and t.value.id == "self"}
    for fq in (FQ, CLS + ".cross_validate_region"):
        fn = M.func(fq)
        fl = Flow(fn)
        written = {}
        for n, d in fl.cfg.g.nodes(data=True):
            s = d["ast"]
            if isinstance(s, ast.Assign):
                for t in s.targets:
                    if isinstance(t, ast.Attribute) and isinstance(t.value, ast.Name) and t.value.id == "self":
                        written.setdefault(t.attr, []).append(n)
        for n, d in fl.cfg.g.nodes(data=True):
            s = d["ast"]
            if s is None:
                continue
            for x in walk_own(s):
                if isinstance(x, ast.Attribute) and isinstance(x.value, ast.Name) and x.value.id == "self" and isinstance(x.ctx, ast.Load):
                    if M.find_method(CLS, x.attr):
                        continue
                    if x.attr in set_in_init:
                        continue
                    w = written.get(x.attr, [])
                    if w and fl.cfg.all_paths_pass(fl.cfg.entry, n, w):
                        continue
                    rep.violation(rid, f"{fq.split('.')[-1]}: read of self.{x.attr}", "instance state read without being set in __init__ or "
                                  "on every path of this call: the result depends on earlier calls", M.where(fq, x))
    rep.ok(rid, "every self.<attr> read by classify / cross_validate_region is initialised in __init__ or earlier in the same call")
    # nothing is carried from one classify() call to the next: an attribute that classify or its helpers *write* is working state and may
    # only be read after a write of the same call (attributes written in classify itself reach the helpers through the placeholder rule below)
    written_by = {}
    for q2 in M.functions():
        if M.parent.get(q2) != CLS or q2.endswith(".__init__"):
            continue
        for a in ast.walk(M.func(q2)):
            if isinstance(a, (ast.Assign, ast.AugAssign)):
                for t in (a.targets if isinstance(a, ast.Assign) else [a.target]):
                    if isinstance(t, ast.Attribute) and isinstance(t.value, ast.Name) and t.value.id == "self":
                        written_by.setdefault(t.attr, set()).add(q2)
    in_classify = {a for a, qs in written_by.items() if FQ in qs}
    for fq2 in sorted({q for qs in written_by.values() for q in qs} - {FQ}):
        fn2 = M.func(fq2)
        fl2 = Flow(fn2)
        wn = {}
        for n2, d2 in fl2.cfg.g.nodes(data=True):
            st = d2["ast"]
            if isinstance(st, (ast.Assign, ast.AugAssign)):
                for t in (st.targets if isinstance(st, ast.Assign) else [st.target]):
                    if isinstance(t, ast.Attribute) and isinstance(t.value, ast.Name) and t.value.id == "self":
                        wn.setdefault(t.attr, []).append(n2)
        for n2, d2 in fl2.cfg.g.nodes(data=True):
            st = d2["ast"]
            if st is None:
                continue
            for x in walk_own(st):
                if isinstance(x, ast.Attribute) and isinstance(x.value, ast.Name) and x.value.id == "self" and isinstance(x.ctx, ast.Load) \
                        and x.attr in written_by and x.attr not in in_classify and not M.find_method(CLS, x.attr):
                    w = [m for m in wn.get(x.attr, []) if m != n2]
                    if w and fl2.cfg.all_paths_pass(fl2.cfg.entry, n2, w):
                        continue
                    rep.violation(rid, f"{fq2.split('.')[-1]}: read of self.{x.attr}", f"self.{x.attr} is written by {sorted(q.split('.')[-1] for q in written_by[x.attr])} and read here "
                                  "before this call has written it: the value left by the previous structure is used (a reused classifier hands the earlier, larger region "
                                  "to a later structure, whose basis indices then point outside the system)", M.where(fq2, x))
    rep.ok(rid, f"working state of the classifier ({sorted(written_by)}) is never read before it is written in the same call")
    # working state of one call: attributes that __init__ only creates as None placeholders and classify fills in must be filled on
    # *every* path before anything reads them (otherwise None, or the value of a previous call, is used)
    placeholders = {t.attr for s in ast.walk(init) if isinstance(s, ast.Assign) and isinstance(s.value, ast.Constant) and s.value.value is None
                    for t in s.targets if isinstance(t, ast.Attribute) and isinstance(t.value, ast.Name) and t.value.id == "self"}
    fn = M.func(FQ)
    fl = Flow(fn)
    writes = {}
    for n, d in fl.cfg.g.nodes(data=True):
        s = d["ast"]
        if isinstance(s, ast.Assign):
            for t in s.targets:
                if isinstance(t, ast.Attribute) and isinstance(t.value, ast.Name) and t.value.id == "self" and t.attr in placeholders:
                    writes.setdefault(t.attr, []).append(n)

    def reads_of(meth, seen=None):
        """self attributes read by a method of the class, including through self.<method>() calls"""
        seen = seen if seen is not None else set()
        if meth in seen:
            return set()
        seen.add(meth)
        q = M.find_method(CLS, meth)
        if not q:
            return set()
        out = set()
        for x in ast.walk(M.func(q)):
            if isinstance(x, ast.Attribute) and isinstance(x.value, ast.Name) and x.value.id == "self" and isinstance(x.ctx, ast.Load):
                if M.find_method(CLS, x.attr):
                    out |= reads_of(x.attr, seen)
                else:
                    out.add(x.attr)
        return out
    # finite domains validated in __init__ (`if <param> not in <set of literals>: raise`): the branches of classify on such an
    # option are evaluated per value, so complementary `== "relative"` / `== "absolute"` branches are not mistaken for a gap
    domains = {}
    consts = {}
    for s2 in init.body:
        if isinstance(s2, ast.Assign) and isinstance(s2.targets[0], ast.Name):
            v = s2.value
            if isinstance(v, ast.Call) and isinstance(v.func, ast.Name) and v.func.id in ("set", "frozenset", "list", "tuple") and v.args:
                v = v.args[0]
            if isinstance(v, (ast.Set, ast.List, ast.Tuple)) and all(isinstance(e, ast.Constant) for e in v.elts):
                consts[s2.targets[0].id] = [e.value for e in v.elts]
        if isinstance(s2, ast.If) and isinstance(s2.test, ast.Compare) and len(s2.test.ops) == 1 and isinstance(s2.test.ops[0], ast.NotIn) \
                and isinstance(s2.test.left, ast.Name) and isinstance(s2.test.comparators[0], ast.Name) \
                and s2.test.comparators[0].id in consts and any(isinstance(x, ast.Raise) for x in s2.body):
            par = s2.test.left.id
            for a in ast.walk(init):
                if isinstance(a, ast.Assign) and isinstance(a.value, ast.Name) and a.value.id == par:
                    for t in a.targets:
                        if isinstance(t, ast.Attribute) and isinstance(t.value, ast.Name) and t.value.id == "self":
                            domains[t.attr] = consts[s2.test.comparators[0].id]
    reassigned = {t.attr for q2 in M.functions() if M.parent.get(q2) == CLS and not q2.endswith(".__init__") for a in ast.walk(M.func(q2))
                  if isinstance(a, (ast.Assign, ast.AugAssign)) for t in (a.targets if isinstance(a, ast.Assign) else [a.target])
                  if isinstance(t, ast.Attribute) and isinstance(t.value, ast.Name) and t.value.id == "self"}
    domains = {k: v for k, v in domains.items() if k not in reassigned}
    import itertools
    import networkx as nx

    def ev(test, env):
        if isinstance(test, ast.Compare) and len(test.ops) == 1 and isinstance(test.ops[0], (ast.Eq, ast.NotEq)) \
                and isinstance(test.left, ast.Attribute) and isinstance(test.left.value, ast.Name) and test.left.value.id == "self" \
                and test.left.attr in env and isinstance(test.comparators[0], ast.Constant):
            r = env[test.left.attr] == test.comparators[0].value
            return r if isinstance(test.ops[0], ast.Eq) else not r
        if isinstance(test, ast.BoolOp):
            vals = [ev(v, env) for v in test.values]
            if isinstance(test.op, ast.Or):
                return True if any(v is True for v in vals) else (False if all(v is False for v in vals) else None)
            return False if any(v is False for v in vals) else (True if all(v is True for v in vals) else None)
        if isinstance(test, ast.UnaryOp) and isinstance(test.op, ast.Not):
            v = ev(test.operand, env)
            return None if v is None else (not v)
        return None

    def gap(use_node, wnodes):
        """a configuration (of the validated options) under which a path entry -> use avoids every write, or None"""
        keys = sorted(domains)
        for combo in itertools.product(*[domains[k] for k in keys]) if keys else [()]:
            env = dict(zip(keys, combo))
            g = fl.cfg.g.copy()
            for n2, d2 in fl.cfg.g.nodes(data=True):
                if isinstance(d2["ast"], ast.If):
                    b = ev(d2["ast"].test, env)
                    if b is not None:
                        for succ in list(g.successors(n2)):
                            if g.edges[n2, succ].get("label") is (not b):
                                g.remove_edge(n2, succ)
            g.remove_nodes_from([w for w in wnodes if w not in (fl.cfg.entry, use_node)])
            if nx.has_path(g, fl.cfg.entry, use_node):
                return env
        return None
    nuse = 0
    for attr, wnodes in sorted(writes.items()):
        for n, d in fl.cfg.g.nodes(data=True):
            s = d["ast"]
            if s is None:
                continue
            for x in walk_own(s):
                use = None
                if isinstance(x, ast.Attribute) and isinstance(x.value, ast.Name) and x.value.id == "self" and isinstance(x.ctx, ast.Load):
                    if x.attr == attr:
                        use = f"read of self.{attr}"
                    elif M.find_method(CLS, x.attr) and attr in reads_of(x.attr):
                        use = f"call of self.{x.attr}(), which reads self.{attr}"
                if use is None:
                    continue
                nuse += 1
                bad = gap(n, wnodes)
                if bad is None:
                    rep.ok(rid, f"classify: self.{attr} is assigned on every path before the {use} (for every value of {sorted(domains)})")
                else:
                    cfgtxt = ", ".join(f"{k}={v!r}" for k, v in sorted(bad.items())) or "some path"
                    rep.violation(rid, f"classify: self.{attr} before the {use}", f"self.{attr} is a None placeholder of __init__ that classify does not assign "
                                  f"when {cfgtxt}: the consumer gets None - TypeError instead of a class - or, on a reused classifier, the value computed for "
                                  "the previous structure", M.where(FQ, x))
    rep.count("placeholder_state_uses", nuse)


# ----------------------------------------------------------------------------- configuration is never mutated in place
def config_mutation(rep, M, rid):
    from ..effects import PASS_THROUGH_EXT, MUTATORS
    init = M.func(CLS + ".__init__")
    cfg = {t.attr for s2 in ast.walk(init) if isinstance(s2, ast.Assign) for t in s2.targets
           if isinstance(t, ast.Attribute) and isinstance(t.value, ast.Name) and t.value.id == "self"}
    written_in_call = set()
    for fq in (FQ, CLS + ".cross_validate_region"):
        for s2 in ast.walk(M.func(fq)):
            if isinstance(s2, ast.Assign):
                for t in s2.targets:
                    if isinstance(t, ast.Attribute) and isinstance(t.value, ast.Name) and t.value.id == "self":
                        written_in_call.add(t.attr)
    pure_cfg = cfg - written_in_call
    n = 0
    for fq in (FQ, CLS + ".cross_validate_region"):
        fn = M.func(fq)
        fl = Flow(fn)
        attr_alias = {}       # self.<attr> written in this call -> config attrs it may alias (flow-insensitive)

        def al(e, at, depth=0):
            if depth > 6:
                return set()
            if isinstance(e, ast.Attribute) and isinstance(e.value, ast.Name) and e.value.id == "self":
                if e.attr in pure_cfg:
                    return {e.attr}
                return set(attr_alias.get(e.attr, ()))
            if isinstance(e, ast.Name):
                out = set()
                for d in fl.rd[at].get(e.id, ()):
                    if d == fl.cfg.entry:
                        continue
                    for kind, *rest in fl.def_value(d, e.id):
                        if kind == "expr":
                            out |= al(rest[0], d, depth + 1)
                return out
            if isinstance(e, ast.Subscript):
                return al(e.value, at, depth + 1)
            if isinstance(e, ast.IfExp):
                return al(e.body, at, depth + 1) | al(e.orelse, at, depth + 1)
            if isinstance(e, ast.Call) and e.args and M.ext_name(fq, e.func) in PASS_THROUGH_EXT:
                return al(e.args[0], at, depth + 1)
            return set()
        for _ in range(3):
            for nid, d in fl.cfg.g.nodes(data=True):
                s2 = d["ast"]
                if isinstance(s2, ast.Assign):
                    for t in s2.targets:
                        if isinstance(t, ast.Attribute) and isinstance(t.value, ast.Name) and t.value.id == "self":
                            attr_alias.setdefault(t.attr, set()).update(al(s2.value, nid))
        for nid, d in fl.cfg.g.nodes(data=True):
            s2 = d["ast"]
            if s2 is None:
                continue
            hits = []
            if isinstance(s2, ast.AugAssign):
                tgt = s2.target
                a = al(tgt.value, nid) if isinstance(tgt, ast.Subscript) else al(tgt, nid)
                if a:
                    hits.append((a, s2))
            elif isinstance(s2, ast.Assign):
                for t in s2.targets:
                    if isinstance(t, ast.Subscript) and al(t.value, nid):
                        hits.append((al(t.value, nid), s2))
            for x in walk_own(s2):
                if isinstance(x, ast.Call) and isinstance(x.func, ast.Attribute) and x.func.attr in MUTATORS and not M.callees_of_call(fq, x):
                    a = al(x.func.value, nid)
                    if a:
                        hits.append((a, x))
                if isinstance(x, ast.Call):
                    for k2 in x.keywords:
                        if k2.arg == "out" and al(k2.value, nid):
                            hits.append((al(k2.value, nid), x))
            for a, node in hits:
                n += 1
                rep.violation(rid, f"{fq.split('.')[-1]}: `{norm(node)[:60]}`", f"modifies in place an object that may be the classifier's configuration "
                              f"self.{sorted(a)[0]} (set in __init__, possibly the caller's own array): every call changes the thresholds of the "
                              "next one, so repeated calls give different classes", M.where(fq, node))
    if not n:
        rep.ok(rid, f"classify never modifies its configuration ({len(pure_cfg)} attributes) in place")


# ----------------------------------------------------------------------------- failure only for zero-volume cells
def r17_fail(rep, M, rid):
    fn = M.func(FQ)
    fl = Flow(fn)
    raises = [(n, d["ast"]) for n, d in fl.cfg.g.nodes(data=True) if isinstance(d["ast"], ast.Raise)]
    for n, r in raises:
        exc = r.exc.func if isinstance(r.exc, ast.Call) else r.exc
        conds = fl.cfg.branch_conditions(n)
        handler = any(isinstance(t, ast.ExceptHandler) for t in ast.walk(fn) if isinstance(t, ast.ExceptHandler) and r in t.body)
        if handler:
            # raised while handling the failure of wrap(): ASE fails there exactly for a periodic direction without cell vector
            tr = [t for t in ast.walk(fn) if isinstance(t, ast.Try) and any(r in h.body for h in t.handlers)]
            only_wrap = tr and all(isinstance(s2, ast.Expr) and isinstance(s2.value, ast.Call) and isinstance(s2.value.func, ast.Attribute)
                                   and s2.value.func.attr == "wrap" for s2 in tr[0].body)
            if only_wrap and norm(exc) == "ValueError":
                rep.ok(rid, "classify: ValueError exactly when wrap() of the copy fails (zero-volume cell with periodic directions)")
            else:
                rep.violation(rid, f"classify: raise {norm(exc)}", "an exception of something else than wrap() is converted", M.where(FQ, r))
            continue
        # explicit test: must be on the *absolute* volume
        dets = [c for t, pol in conds if isinstance(t, ast.If) for c in ast.walk(t.test) if isinstance(c, ast.Call) and M.ext_name(FQ, c.func) == "numpy.linalg.det"]
        vols = [c for t, pol in conds if isinstance(t, ast.If) for c in ast.walk(t.test) if isinstance(c, ast.Call) and isinstance(c.func, ast.Attribute)
                and c.func.attr in ("get_volume", "volume")]
        if dets:
            absd = any(isinstance(c, ast.Call) and ((isinstance(c.func, ast.Name) and c.func.id == "abs") or (M.ext_name(FQ, c.func) in ("numpy.abs", "numpy.absolute")))
                       and any(x is dets[0] for x in ast.walk(c)) for t, pol in conds if isinstance(t, ast.If) for c in ast.walk(t.test))
            if absd:
                rep.ok(rid, f"classify: raise {norm(exc)} under a test of the absolute cell volume")
            else:
                rep.violation(rid, f"classify: raise {norm(exc)} under `{norm(dets[0])} < eps`", "the *signed* determinant is tested: every left-handed cell "
                              "(negative determinant, non-zero volume) is rejected as zero-volume, so classify does not return normally for it", M.where(FQ, r))
        elif vols:
            rep.ok(rid, f"classify: raise {norm(exc)} under a test of the cell volume")
        else:
            rep.violation(rid, f"classify: raise {norm(exc)}", "classify raises under a condition that is not the zero-volume test of the documented failure",
                          M.where(FQ, r))
    if not raises:
        rep.violation(rid, "classify: zero-volume cells", "no documented failure for zero-volume periodic cells", M.where(FQ))


# ----------------------------------------------------------------------------- R17.6 radii agreement
def r17_6(rep, M, rid):
    fn = M.func(FQ)
    gd = M.calls_to(FQ, GEO + ".get_distances")
    dm = M.calls_to(FQ, GEO + ".get_dimensionality")
    if not gd or not dm:
        raise AnalysisError("classify: get_distances / get_dimensionality calls not found")
    r1 = M.bind_args(GEO + ".get_distances", gd[0]).get("radii")
    b2 = M.bind_args(GEO + ".get_dimensionality", dm[0])
    r2 = b2.get("radii")
    mat = b2.get("dist_matrix_radii_mic_1x")
    fl = Flow(fn)
    same = (r1 is None and r2 is None) or (r1 is not None and r2 is not None and norm(r1) == norm(r2))
    if mat is not None and any(c is gd[0] for c in fl.calls_in_slice(mat, fl.node_of(dm[0]))):
        if same:
            rep.ok(rid, f"classify: distance matrix and dimensionality use the same radii ({norm(r1) if r1 else 'default'})")
        else:
            rep.violation(rid, "classify: radii of matrix vs dimensionality", f"get_distances uses {norm(r1) if r1 else 'the default'}, "
                          f"get_dimensionality {norm(r2) if r2 else 'the default'}: the 1x matrix and the 2x evaluation disagree",
                          M.where(FQ, dm[0]))
    else:
        rep.ok(rid, "classify: dimensionality computes its own matrix")
    if mat is not None:
        good_field = isinstance(mat, ast.Attribute) and mat.attr == "dist_matrix_radii_mic"
        if good_field:
            rep.ok(rid, "classify: the precomputed matrix handed to get_dimensionality is the radii-corrected one")
        else:
            rep.violation(rid, "classify: precomputed matrix", f"`{norm(mat)}` is passed as `dist_matrix_radii_mic_1x`: get_dimensionality expects "
                          "minimum-image distances with the radii already subtracted; raw distances make bonded structures with long bonds "
                          "look disconnected (Unknown)", M.where(FQ, dm[0]))
    thr = b2.get("cluster_threshold")
    if thr is not None and norm(thr) == "self.cluster_threshold":
        rep.ok(rid, "classify: cluster_threshold forwarded")
    else:
        rep.violation(rid, "classify: cluster_threshold", "the configured cluster_threshold is not forwarded to get_dimensionality",
                      M.where(FQ, dm[0]))
    # constructor parameters reach PeriodicFinder / get_region
    cv = CLS + ".cross_validate_region"
    PF = "matid.core.periodicfinder.PeriodicFinder"
    for callee, cp, attr in ((PF + ".__init__", "angle_tol", "angle_tol"), (PF + ".__init__", "cell_size_tol", "cell_size_tol"),
                             (PF + ".__init__", "max_2d_cell_height", "max_2d_cell_height"),
                             (PF + ".__init__", "max_2d_single_cell_size", "max_2d_single_cell_size"),
                             (PF + ".get_region", "bond_threshold", "bond_threshold")):
        for c in M.calls_to(cv, callee):
            a = M.bind_args(callee, c).get(cp)
            if a is not None and norm(a) == f"self.{attr}":
                rep.ok(rid, f"cross_validate_region: {attr} -> {callee.split('.')[-2]}.{callee.split('.')[-1]}")
            else:
                rep.violation(rid, f"cross_validate_region: {attr}", f"self.{attr} is not forwarded as `{cp}`", M.where(cv, c))


def run(rep, ctx):
    M = ctx.model
    E = Effects(M)
    rep.explanation = ("conditional constant propagation of the dimensionality dispatch over {None,0,1,2,3} against the class "
                       "hierarchy parsed from classifications.py; dominance/def-use rules for the Surface/Material2D guards; "
                       "structure of the basis/outlier views; effect analysis of classify; nondeterminism scan; forwarding")
    rep.assumptions = ["get_dimensionality returns None or 0..3", "recognition quality of the region search is not decided (C18)"]
    rep.rule("R17.1", "for each dimensionality value the returned class is the required one (or a refinement); never None")
    rep.rule("R17.2", "Surface/Material2D only under region-not-None, coverage >= min_coverage, two connected directions, chosen by is_2d; they carry the region")
    rep.rule("R17.3", "basis_indices and outliers partition the atoms; prototype_cell is the region's cell")
    rep.rule("R17.4", "the input is never mutated; classifications carry the caller's atoms and nobody mutates them")
    rep.rule("R17.5", "no nondeterminism reachable; instance state read by classify is initialised")
    rep.rule("R17.6", "matrix and dimensionality use the same radii; thresholds are forwarded")
    rep.rule("R17.7", "classify raises only for zero-volume periodic cells; every exception handler on its paths is a confirmed one")
    for rid, f in (("R17.1", lambda: r17_1(rep, M, "R17.1")), ("R17.2", lambda: r17_2(rep, M, "R17.2")),
                   ("R17.3", lambda: r17_3(rep, M, "R17.3")), ("R17.4", lambda: r17_4(rep, M, E, "R17.4")),
                   ("R17.5", lambda: (r17_5(rep, M, "R17.5"), config_mutation(rep, M, "R17.5"))), ("R17.6", lambda: r17_6(rep, M, "R17.6")), ("R17.7", lambda: r17_fail(rep, M, "R17.7"))):
        with rep.guard(rid):
            f()
    with rep.guard("R17.7"):
        from .. import handlers
        handlers.check(rep, M, "R17.7", M.reachable([FQ]))
        handlers.check_raises(rep, M, "R17.7", M.reachable([FQ]), FQ.split(".")[-1])
        from . import c04 as _c04
        _c04.builders_total(rep, M, "R17.7")
        defaults_pass_validation(rep, M, "R17.7")
        from .. import sigs as _sigs
        _sigs.run(rep, M, "R17.7", scope=M.reachable([FQ]))      # every call below classify binds its arguments to parameters of the right kind
        _c04.masked_index_spaces(rep, M, "R17.7")      # an axis number indexing an array over the periodic vectors raises IndexError out of classify
    rep.rule("R17.8", "the geometry helpers classify rests on (get_dimensionality, get_radii, get_distances, displacement-tensor wrapper, clustering) satisfy their own rules (shared with C09/C10/C19)")
    with rep.guard("R17.8"):
        from . import shared as _sh
        _sh.dimensionality(rep, ctx.model, "R17.8", caller_wraps=True)
        _sh.radii(rep, ctx.model, "R17.8")
        _sh.distances(rep, ctx.model, "R17.8")
    rep.floor("R17.7", 7)
    rep.floor("R17.1", 7)
    rep.floor("R17.2", 3)
    rep.floor("R17.3", 4)
    rep.floor("R17.4", 3)
    rep.floor("R17.6", 6)


META = {
    "level": "other",
    "text": "static rules on Classifier.classify, which no pinned test executes: the dimensionality dispatch is evaluated "
            "by conditional constant propagation for each of the five possible values and compared with the class "
            "hierarchy; the refinements are shown to be dominated by their documented guards and to carry the region; the "
            "basis/outlier views are a set partition by construction; the input is never mutated; nothing nondeterministic "
            "is reachable. Whether the region search recognises a given material is not decided (C18, not applicable)."
            " Also: classify never modifies its configuration in place (flow-sensitive alias tracking of self.<config>), the precomputed matrix handed to get_dimensionality is the radii-corrected field, coverage is compared with >=, outliers are exactly ALL minus BASIS, and every exception handler on the reachable paths is a confirmed one.",
    "note": "trusted: CPython ast; repository model; effect-analysis API tables; get_dimensionality's range {None,0,1,2,3}.",
    "technique": "conditional constant propagation over the dispatch + dominance/def-use guards + effect analysis",
}


# ----------------------------------------------------------------------------- the default options pass the constructor's own validation
def defaults_pass_validation(rep, M, rid, fq=CLS + ".__init__"):
    """partial evaluation of the constructor with every option at its default (literals, `constants.X` resolved from matid.data.constants): a `raise`
    that is reached through tests all of which fold to a known value means that a default-constructed object cannot be built. Tests that do not fold
    (anything depending on run-time data) are skipped together with their bodies."""
    from ..constfold import Folder
    fn = M.func(fq)
    consts = {}
    cm = M.mods.get("matid.data.constants")
    f0 = Folder(what="matid.data.constants")
    if cm is not None:
        for st in cm.body:
            if isinstance(st, ast.Assign) and len(st.targets) == 1 and isinstance(st.targets[0], ast.Name):
                try:
                    consts[st.targets[0].id] = f0.ev(st.value, dict(consts))
                except AnalysisError:
                    pass

    def hook(e, env, folder):
        if isinstance(e, ast.Attribute) and isinstance(e.value, ast.Name) and e.value.id == "constants" and e.attr in consts:
            return consts[e.attr]
        if isinstance(e, ast.Call) and isinstance(e.func, ast.Name) and e.func.id == "isinstance" and len(e.args) == 2:
            v = folder.ev(e.args[0], env)
            names = [x.id for x in (e.args[1].elts if isinstance(e.args[1], ast.Tuple) else [e.args[1]]) if isinstance(x, ast.Name)]
            types = {"str": str, "int": int, "float": float, "list": list, "tuple": tuple, "bool": bool, "dict": dict, "set": set}
            if names and all(nm in types for nm in names):
                return isinstance(v, tuple(types[nm] for nm in names))
            raise AnalysisError("isinstance against a type outside the folder")
        return NotImplemented
    F = Folder(hooks={"c": hook}, what=fq.split(".")[-2] + ".__init__")
    env = {}
    a = fn.args
    for p, dv in zip(a.args[len(a.args) - len(a.defaults):], a.defaults):
        try:
            env[p.arg] = F.ev(dv, {})
        except AnalysisError:
            pass
    reached = []
    n_folded = [0]

    def walk(stmts, env):
        for s in stmts:
            if isinstance(s, ast.If):
                try:
                    v = F.ev(s.test, env)
                except (AnalysisError, Exception):
                    continue
                n_folded[0] += 1
                if walk(s.body if v else s.orelse, env):
                    return True
            elif isinstance(s, ast.Assign) and len(s.targets) == 1 and isinstance(s.targets[0], ast.Name):
                try:
                    env[s.targets[0].id] = F.ev(s.value, env)
                except (AnalysisError, Exception):
                    env.pop(s.targets[0].id, None)
            elif isinstance(s, ast.Raise):
                reached.append(s)
                return True
            elif isinstance(s, ast.Return):
                return True
        return False
    walk(fn.body, env)
    if n_folded[0] < 3:
        raise AnalysisError(f"{fq}: only {n_folded[0]} validation test(s) could be folded with the default options")
    for r in reached:
        rep.violation(rid, f"{fq.split('.')[-2]}.__init__: `{norm(r)[:60]}`", "with every option at its default value the constructor reaches this raise: a default-constructed "
                      f"{fq.split('.')[-2]} cannot be built (the validation test in front of it is inverted or compares with the wrong value)", M.where(fq, r))
    if not reached:
        rep.ok(rid, f"{fq.split('.')[-2]}.__init__: the default options pass the constructor's own validation ({n_folded[0]} tests folded)")
    # options whose default is None are given a working value during construction (pos_tol: relative mode -> constants.REL_POS_TOL)
    for s2 in ast.walk(fn):
        if isinstance(s2, ast.Assign) and isinstance(s2.targets[0], ast.Attribute) and norm(s2.targets[0].value) == "self" and isinstance(s2.value, ast.Name) \
                and s2.value.id in env and s2.targets[0].attr == s2.value.id and s2.value.id in ("pos_tol",):
            if env[s2.value.id] is None:
                rep.violation(rid, f"{fq.split('.')[-2]}.__init__: default of `{s2.value.id}`", f"with every option at its default, `self.{s2.value.id}` is left None: the "
                              "default relative tolerance is not installed (inverted test), and classify fails on `np.array(None) * distance`", M.where(fq, s2))
            else:
                rep.ok(rid, f"{fq.split('.')[-2]}.__init__: the default `{s2.value.id}` resolves to {env[s2.value.id]!r}")
