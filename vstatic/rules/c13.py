"""C13 - Cluster.get_dimensionality agrees with get_dimensionality of the cluster's atoms.

R13.1 cache coherence (typestate over the index set of a Cluster)
R13.2 the shortcut forwards the clustering context (bond threshold, radii); constructor siblings agree
R13.3 the cached result is written once under its None guard
"""
import ast

from ..cfg import CFG, walk_own
from ..dataflow import Flow
from ..model import norm
from ..report import AnalysisError

CLUSTER = "matid.clustering.cluster.Cluster"
GEO_DIM = "matid.geometry.geometry.get_dimensionality"
LIST_MUT = {"append", "extend", "remove", "pop", "insert", "sort", "clear", "reverse"}


# ----------------------------------------------------------------------------- class facts
def self_attr_reads(M, fq, seen=None):
    """attributes of self read by method fq, transitively through self-method calls / property reads"""
    seen = seen if seen is not None else set()
    if fq in seen:
        return set()
    seen.add(fq)
    out = set()
    cq = M.enclosing_class(fq)
    for n in M.own_nodes(fq):
        if isinstance(n, ast.Attribute) and isinstance(n.value, ast.Name) and n.value.id == "self" \
                and isinstance(n.ctx, ast.Load):
            m = M.find_method(cq, n.attr) if cq else None
            if m:
                out |= self_attr_reads(M, m, seen)
                if any(ast.unparse(d) == "property" for d in M.defs[m].decorator_list):
                    out.add(n.attr)
            else:
                out.add(n.attr)
    return out


def is_none_test_of_self(test, attr):
    """`self.attr is None` (possibly inside an `and`/`or`)"""
    for sub in ast.walk(test):
        if (isinstance(sub, ast.Compare) and len(sub.ops) == 1 and isinstance(sub.ops[0], (ast.Is, ast.Eq))
                and isinstance(sub.left, ast.Attribute) and isinstance(sub.left.value, ast.Name)
                and sub.left.value.id == "self" and sub.left.attr == attr
                and isinstance(sub.comparators[0], ast.Constant) and sub.comparators[0].value is None):
            return True
    return False


def property_of(M, cq, name):
    """(getter fq, setter fq) of property `name` on class cq"""
    g = s = None
    for q, d in M.functions().items():
        if M.parent.get(q) != cq or d.name != name:
            continue
    for d in M.cls(cq).body:
        if isinstance(d, ast.FunctionDef) and d.name == name:
            decos = [ast.unparse(x) for x in d.decorator_list]
            if "property" in decos:
                g = d
            if f"{name}.setter" in decos:
                s = d
    return g, s


def backing_fields(getter):
    out = set()
    if getter is None:
        return out
    for n in ast.walk(getter):
        if isinstance(n, ast.Return) and isinstance(n.value, ast.Attribute) and isinstance(n.value.value, ast.Name) \
                and n.value.value.id == "self":
            out.add(n.value.attr)
    return out


def derive_caches(M):
    """caches of Cluster: attr -> dict(filler=fq, reads=set(attrs))"""
    caches = {}
    for q, d in M.functions().items():
        if M.parent.get(q) != CLUSTER or d.name == "__init__":
            continue
        for n in ast.walk(d):
            if isinstance(n, ast.If):
                for s in n.body:
                    if isinstance(s, ast.Assign):
                        for t in s.targets:
                            if (isinstance(t, ast.Attribute) and isinstance(t.value, ast.Name) and t.value.id == "self"
                                    and is_none_test_of_self(n.test, t.attr)):
                                reads = set()
                                for sub in ast.walk(s.value):
                                    if isinstance(sub, ast.Attribute) and isinstance(sub.value, ast.Name) \
                                            and sub.value.id == "self":
                                        m = M.find_method(CLUSTER, sub.attr)
                                        if m:
                                            reads |= self_attr_reads(M, m)
                                        else:
                                            reads.add(sub.attr)
                                caches[t.attr] = {"filler": q, "reads": reads, "stmt": s}
    return caches


def resetters(M, cache):
    """Cluster methods (incl. property setters) that store None to self.<cache>"""
    out = set()
    for d in M.cls(CLUSTER).body:
        if isinstance(d, ast.FunctionDef) and d.name != "__init__":
            for n in ast.walk(d):
                if isinstance(n, ast.Assign) and isinstance(n.value, ast.Constant) and n.value.value is None:
                    for t in n.targets:
                        if isinstance(t, ast.Attribute) and isinstance(t.value, ast.Name) and t.value.id == "self" \
                                and t.attr == cache:
                            out.add(d.name)
    return out


# ----------------------------------------------------------------------------- R13.1
def fillers_closure(M, caches, cache):
    """Cluster methods whose execution may fill `cache` (directly or through self calls)"""
    direct = {caches[cache]["filler"]}
    out = set(direct)
    changed = True
    g = M.callgraph()
    while changed:
        changed = False
        for q in M.functions():
            if q not in out and g.get(q, set()) & out and M.parent.get(q) == CLUSTER:
                out.add(q)
                changed = True
    return out


def transitive_callees(M, fq, memo):
    if fq in memo:
        return memo[fq]
    memo[fq] = set()
    out = set(M.callgraph().get(fq, ()))
    for c in list(out):
        out |= transitive_callees(M, c, memo)
    memo[fq] = out
    return out


def fill_before(M, F, stmt, fillset, memo, depth=0, seen=None):
    """is there a call that may run a filler and can execute before `stmt` of function F
    (within F, or before a call to F in any caller)? returns a description or None"""
    seen = seen or set()
    if (F, id(stmt)) in seen or depth > 6:
        return None
    seen.add((F, id(stmt)))
    cfg = CFG(M.func(F))
    target = cfg.node_of.get(id(stmt))
    if target is None:
        # statement nested in an expression statement: find containing node
        for n, d in cfg.g.nodes(data=True):
            if d["ast"] is not None and any(sub is stmt for sub in walk_own(d["ast"])):
                target = n
    if target is None:
        raise AnalysisError(f"statement not found in CFG of {F}")
    for n, d in cfg.g.nodes(data=True):
        s = d["ast"]
        if s is None:
            continue
        for sub in walk_own(s):
            if not isinstance(sub, ast.Call):
                continue
            cs = M.callees_of_call(F, sub)
            hit = set()
            for c in cs:
                if c in fillset:
                    hit.add(c)
                hit |= transitive_callees(M, c, memo) & fillset
            if not hit:
                continue
            before = False
            if n == target:
                # same statement: the call is evaluated before the store of an assignment
                before = True
            elif cfg.reaches(n, target):
                before = True
            if before:
                return f"`{norm(sub)[:70]}` in {F.split('.')[-1]} (may run {sorted(h.split('.')[-1] for h in hit)})"
    # callers
    M.callgraph()
    for G, sites in M.call_sites.items():
        for call, cs in sites:
            if F in cs:
                stmt_g = _stmt_containing(M, G, call)
                r = fill_before(M, G, stmt_g, fillset, memo, depth + 1, seen)
                if r:
                    return r
    # nested function: its definition site's parent calls it (already in call_sites); nothing more
    return None


def _stmt_containing(M, fq, node):
    cfg = CFG(M.func(fq))
    for n, d in cfg.g.nodes(data=True):
        if d["ast"] is not None and any(sub is node for sub in walk_own(d["ast"])):
            return d["ast"]
    raise AnalysisError(f"call site not found in CFG of {fq}")


def reset_after(M, fq, stmt, recv_text, cache, reset_methods):
    """(B): in the block containing stmt, a later statement resets recv.cache"""
    fn = M.func(fq)
    for parent in ast.walk(fn):
        for field in ("body", "orelse", "finalbody"):
            blk = getattr(parent, field, None)
            if isinstance(blk, list) and stmt in blk:
                for later in blk[blk.index(stmt) + 1:]:
                    if isinstance(later, ast.Assign) and isinstance(later.value, ast.Constant) and later.value.value is None:
                        for t in later.targets:
                            if isinstance(t, ast.Attribute) and t.attr == cache and norm(t.value) == recv_text:
                                return True
                    if isinstance(later, ast.Expr) and isinstance(later.value, ast.Call) \
                            and isinstance(later.value.func, ast.Attribute) \
                            and later.value.func.attr in reset_methods and norm(later.value.func.value) == recv_text:
                        return True
    return False


def r13_1(rep, M, rid):
    caches = derive_caches(M)
    rep.require(caches, "no cache (attribute filled under `if self.X is None`) found in class Cluster")
    getter, setter = property_of(M, CLUSTER, "indices")
    state = {"indices"} | backing_fields(getter)
    dependent = {c: v for c, v in caches.items() if v["reads"] & state}
    rep.count("cluster_caches", len(caches))
    rep.count("caches_depending_on_indices", len(dependent))
    rep.note(f"Cluster caches derived: " + "; ".join(f"{c} <- {sorted(v['reads'])}" for c, v in sorted(caches.items())))
    rep.require(dependent, "no cache of Cluster depends on `indices`: the model of the class is out of date")
    # (A) setter resets
    setter_resets = set()
    if setter is not None:
        for n in ast.walk(setter):
            if isinstance(n, ast.Assign) and isinstance(n.value, ast.Constant) and n.value.value is None:
                for t in n.targets:
                    if isinstance(t, ast.Attribute) and isinstance(t.value, ast.Name) and t.value.id == "self":
                        setter_resets.add(t.attr)
            if isinstance(n, ast.Call) and isinstance(n.func, ast.Attribute) and isinstance(n.func.value, ast.Name) \
                    and n.func.value.id == "self":
                for c in dependent:
                    if n.func.attr in resetters(M, c):
                        setter_resets.add(c)
    # store sites
    sites = []
    for fq in M.functions():
        if M.parent.get(fq) == CLUSTER and M.defs[fq].name == "__init__":
            continue
        if setter is not None and M.defs[fq] is setter:
            continue
        for n in M.own_nodes(fq):
            if isinstance(n, (ast.Assign, ast.AugAssign)):
                tg = n.targets if isinstance(n, ast.Assign) else [n.target]
                for t in tg:
                    for el in ([t] if not isinstance(t, (ast.Tuple, ast.List)) else t.elts):
                        if isinstance(el, ast.Attribute) and el.attr in state:
                            ty = M.types_of(fq, el.value)
                            if any(x == ("obj", CLUSTER) for x in ty) or (
                                    isinstance(el.value, ast.Name) and el.value.id == "self" and M.enclosing_class(fq) == CLUSTER):
                                sites.append((fq, n, norm(el.value), "store", el.attr))
                        # cluster.indices[k] = v
                        if isinstance(el, ast.Subscript) and isinstance(el.value, ast.Attribute) and el.value.attr in state:
                            ty = M.types_of(fq, el.value.value)
                            if any(x == ("obj", CLUSTER) for x in ty):
                                sites.append((fq, n, norm(el.value.value), "inplace", el.value.attr))
            if isinstance(n, ast.Delete):
                for t in n.targets:
                    if isinstance(t, ast.Subscript) and isinstance(t.value, ast.Attribute) and t.value.attr in state:
                        ty = M.types_of(fq, t.value.value)
                        if any(x == ("obj", CLUSTER) for x in ty) or (isinstance(t.value.value, ast.Name) and t.value.value.id == "self"
                                                                      and M.enclosing_class(fq) == CLUSTER):
                            sites.append((fq, n, norm(t.value.value), "inplace", t.value.attr))
            if isinstance(n, ast.Expr) and isinstance(n.value, ast.Call) and isinstance(n.value.func, ast.Attribute) \
                    and n.value.func.attr in LIST_MUT and isinstance(n.value.func.value, ast.Attribute) \
                    and n.value.func.value.attr in state:
                ty = M.types_of(fq, n.value.func.value.value)
                if any(x == ("obj", CLUSTER) for x in ty) or (
                        isinstance(n.value.func.value.value, ast.Name) and n.value.func.value.value.id == "self"
                        and M.enclosing_class(fq) == CLUSTER):
                    sites.append((fq, n, norm(n.value.func.value.value), "inplace", n.value.func.value.attr))
    rep.count("index_store_sites", len(sites))
    memo = {}
    for fq, stmt, recv, kind, attr in sites:
        for c in sorted(dependent):
            construct = f"{fq.replace('matid.', '')}: {norm(stmt)[:90]} vs cache {c}"
            if kind == "store" and attr == "indices" and c in setter_resets:
                rep.ok(rid, construct + " [setter invalidates]")
                continue
            if reset_after(M, fq, stmt, recv, c, resetters(M, c)):
                rep.ok(rid, construct + " [site invalidates]")
                continue
            fillset = fillers_closure(M, caches, c)
            why = fill_before(M, fq, stmt, fillset, memo)
            if why is None:
                rep.ok(rid, construct + " [no fill can precede]")
            else:
                rep.violation(rid, construct,
                              f"the index set of a Cluster is rewritten after its cache `{c}` may already have been "
                              f"filled by {why}; nothing invalidates it, so Cluster.get_dimensionality() works on a "
                              f"stale sub-matrix", M.where(fq, stmt))
    if not sites:
        rep.ok(rid, "no store to Cluster.indices outside the constructor (clusters are immutable)")


# ----------------------------------------------------------------------------- R13.2
def kw_value(fn, call, name, positional_index=None):
    """expressions bound to keyword `name` at `call` (through **dict built in fn as well)"""
    out = []
    for k in call.keywords:
        if k.arg == name:
            out.append(k.value)
        if k.arg is None and isinstance(k.value, ast.Name):
            d = k.value.id
            for n in ast.walk(fn):
                if isinstance(n, ast.Assign):
                    for t in n.targets:
                        if isinstance(t, ast.Subscript) and isinstance(t.value, ast.Name) and t.value.id == d \
                                and isinstance(t.slice, ast.Constant) and t.slice.value == name:
                            out.append(n.value)
                        if isinstance(t, ast.Name) and t.id == d and isinstance(n.value, ast.Dict):
                            for kk, vv in zip(n.value.keys, n.value.values):
                                if isinstance(kk, ast.Constant) and kk.value == name:
                                    out.append(vv)
                        if isinstance(t, ast.Name) and t.id == d and isinstance(n.value, ast.Call) \
                                and isinstance(n.value.func, ast.Name) and n.value.func.id == "dict":
                            for kk in n.value.keywords:
                                if kk.arg == name:
                                    out.append(kk.value)
    if not out and positional_index is not None and positional_index < len(call.args):
        out.append(call.args[positional_index])
    return out


def self_attrs_in_slice(fl, expr):
    at = fl.node_of(expr)
    out = set()
    for e in fl.slice(expr, at)["exprs"]:
        for sub in ast.walk(e):
            if isinstance(sub, ast.Attribute) and isinstance(sub.value, ast.Name) and sub.value.id == "self":
                out.add(sub.attr)
    return out


def r13_2(rep, M, rid):
    fq = CLUSTER + ".get_dimensionality"
    fn = M.func(fq)
    fl = Flow(fn)
    calls = [n for n in M.own_nodes(fq) if isinstance(n, ast.Call) and GEO_DIM in M.callees_of_call(fq, n)]
    rep.require(calls, "Cluster.get_dimensionality no longer calls matid.geometry.get_dimensionality")
    gparams = M.params(GEO_DIM)
    for call in calls:
        base = f"Cluster.get_dimensionality -> get_dimensionality"
        thr = kw_value(fn, call, "cluster_threshold", gparams.index("cluster_threshold"))
        if not thr:
            rep.violation(rid, base + " cluster_threshold", "the bond threshold of the clustering is not forwarded "
                          "(the default CLUSTER_THRESHOLD of the geometry module would be used)", M.where(fq, call))
        elif not any("_bond_threshold" in self_attrs_in_slice(fl, e) for e in thr):
            rep.violation(rid, base + " cluster_threshold", f"`{norm(thr[0])}` is not derived from self._bond_threshold",
                          M.where(fq, call))
        else:
            rep.ok(rid, base + " cluster_threshold <- self._bond_threshold")
        rad = kw_value(fn, call, "radii", gparams.index("radii") if "radii" in gparams else None)
        if not rad:
            rep.violation(rid, base + " radii", "the radii used for the clustering are not forwarded: the shortcut "
                          "evaluates the 2x supercell with the default covalent radii while the cached 1x matrix was "
                          "built with the clustering radii", M.where(fq, call))
        elif not any("_radii" in self_attrs_in_slice(fl, e) for e in rad):
            rep.violation(rid, base + " radii", f"`{norm(rad[0])}` is not derived from self._radii", M.where(fq, call))
        else:
            rep.ok(rid, base + " radii <- self._radii")
            # when the radii travel through a keyword dict filled under a test, the test must let the *given* radii through
            for st in [s2 for s2 in ast.walk(fn) if isinstance(s2, ast.Assign) and isinstance(s2.targets[0], ast.Subscript)
                       and isinstance(s2.targets[0].slice, ast.Constant) and s2.targets[0].slice.value == "radii"]:
                for t, pol in fl.cfg.branch_conditions(fl.node_of(st)):
                    tt = getattr(t, "test", None)
                    if isinstance(tt, ast.Compare) and len(tt.ops) == 1 and isinstance(tt.comparators[0], ast.Constant) and tt.comparators[0].value is None \
                            and norm(tt.left) == "self._radii" and ((isinstance(tt.ops[0], ast.Is) and pol) or (isinstance(tt.ops[0], ast.IsNot) and not pol)):
                        rep.violation(rid, base + " radii guard", f"`{norm(st)[:50]}` runs exactly when self._radii is None: clusters that carry clustering radii evaluate "
                                      "their 2x supercell with the default covalent radii (and a cluster without radii fails on None[...])", M.where(fq, st))
            # ... and as a per-atom slice: the array holds one radius per atom of the parent system
            getter, _setter = property_of(M, CLUSTER, "indices")
            ok_idx = {"self.indices"} | {"self." + b for b in backing_fields(getter)}
            sdefs = {}
            for s2 in ast.walk(fn):
                if isinstance(s2, ast.Assign) and len(s2.targets) == 1 and isinstance(s2.targets[0], ast.Name):
                    sdefs.setdefault(s2.targets[0].id, []).append(s2.value)

            def strip(x):
                for _ in range(8):
                    if isinstance(x, ast.Call) and x.args and (M.ext_name(fq, x.func) or "") in ("numpy.asarray", "numpy.array", "numpy.copy"):
                        x = x.args[0]
                    elif isinstance(x, ast.Name) and len(sdefs.get(x.id, ())) == 1:
                        x = sdefs[x.id][0]
                    else:
                        break
                return x
            for e in rad:
                core = strip(e)
                if isinstance(core, ast.Constant) and core.value is None:
                    continue
                b0 = strip(core.value) if isinstance(core, ast.Subscript) else None
                if isinstance(core, ast.Subscript) and b0 is not None and norm(b0) == "self._radii" and norm(core.slice) in ok_idx:
                    rep.ok(rid, base + f" radii = `{norm(e)}`: the per-atom radii sliced by the cluster's indices")
                else:
                    rep.violation(rid, base + " radii form", f"`{norm(e)[:90]}` is not the per-atom array `self._radii` sliced by the cluster's indices: any "
                                  "detour (lookup by species, re-resolution from a preset) loses per-atom custom radii, so the 2x supercell test uses "
                                  "other radii than the clustering and the cached 1x matrix did", M.where(fq, call))
        mat = kw_value(fn, call, "dist_matrix_radii_mic_1x", gparams.index("dist_matrix_radii_mic_1x"))
        sysarg = call.args[0] if call.args else (kw_value(fn, call, "system") or [None])[0]
        if sysarg is None:
            rep.violation(rid, base + " system", "no system passed", M.where(fq, call))
        else:
            at = self_attrs_in_slice(fl, sysarg)
            reads = set()
            for a in at:
                m = M.find_method(CLUSTER, a)
                reads |= self_attr_reads(M, m) if m else {a}
            if not ({"indices", "_indices"} & reads) or "_system" not in reads:
                rep.violation(rid, base + " system", f"`{norm(sysarg)}` is not the cluster's own atoms "
                              "(self._system restricted to self.indices)", M.where(fq, call))
            else:
                rep.ok(rid, base + " system <- self._system[self.indices]")
    # the cached sub-matrix is cut from the radii-corrected field of the distance record
    gm = CLUSTER + "._get_distance_matrix_radii_mic"
    if gm in M.defs:
        flds = {x.attr for x in ast.walk(M.defs[gm]) if isinstance(x, ast.Attribute) and x.attr.startswith("dist_matrix")}
        if flds == {"dist_matrix_radii_mic"}:
            rep.ok(rid, "Cluster sub-matrix is cut from distances.dist_matrix_radii_mic (radii already subtracted)")
        else:
            rep.violation(rid, "Cluster._get_distance_matrix_radii_mic: source field", f"reads {sorted(flds)} of the distance record; get_dimensionality "
                          "expects minimum-image distances with the clustering radii subtracted (dist_matrix_radii_mic)", M.where(gm))
        mcall = [c for c in calls for k in c.keywords if k.arg == "dist_matrix_radii_mic_1x"]
        if mcall and all(any(isinstance(x, ast.Call) and isinstance(x.func, ast.Attribute) and x.func.attr == "_get_distance_matrix_radii_mic"
                             for k in c.keywords if k.arg == "dist_matrix_radii_mic_1x" for x in ast.walk(k.value)) for c in mcall):
            rep.ok(rid, "the shortcut passes its own cached sub-matrix as dist_matrix_radii_mic_1x")
        elif mcall:
            rep.violation(rid, "Cluster.get_dimensionality: precomputed matrix", "the matrix passed as dist_matrix_radii_mic_1x is not the cluster's own "
                          "radii-corrected sub-matrix", M.where(fq, mcall[0]))
    # constructor siblings in sbc.py
    ctx_kw = ["system", "distances", "radii", "bond_threshold"]
    init = M.find_method(CLUSTER, "__init__")
    iparams = M.params(init)
    sites = []
    for f2 in M.functions():
        if not f2.startswith("matid.clustering.sbc."):
            continue
        for n in M.own_nodes(f2):
            if isinstance(n, ast.Call) and init in M.callees_of_call(f2, n):
                sites.append((f2, n))
    rep.count("cluster_construction_sites", len(sites))
    rep.require(len(sites) >= 1, "no Cluster(...) construction in sbc.py")
    for f2, call in sites:
        passed = {k.arg for k in call.keywords if k.arg} | set(iparams[:len(call.args)])
        for kw in ctx_kw:
            construct = f"{f2.replace('matid.', '')}: Cluster(...) {kw}"
            if kw not in passed:
                rep.violation(rid, construct, f"this construction site does not pass `{kw}`; the cluster loses the "
                              f"clustering context its dimensionality shortcut needs (sibling sites pass it)",
                              M.where(f2, call))
                continue
            val = kw_value(M.func(f2), call, kw, iparams.index(kw))[0]
            if isinstance(val, ast.Constant):
                rep.violation(rid, construct, f"`{kw}` is the literal {val.value!r}", M.where(f2, call))
                continue
            # the value must originate from the same-named parameter of SBC.get_clusters (followed up the call graph)
            if kw in ("bond_threshold", "radii"):
                from ..dataflow import entry_roots
                roots = entry_roots(M, f2, val)
                gcq = "matid.clustering.sbc.SBC.get_clusters"
                prm = {r[1] for r in roots if r[0] == gcq}
                attr_ok = any(r[0] == "<attr>" and r[1].endswith("._" + kw) for r in roots)
                if kw in prm or (attr_ok and not prm):
                    rep.ok(rid, construct + f" <- get_clusters({kw})")
                else:
                    rep.violation(rid, construct, f"`{kw}={norm(val)}` originates from {sorted(prm) or sorted(r[1] for r in roots)[:3]}, not from the "
                                  f"`{kw}` the clustering was run with: the shortcut evaluates the cluster with another {kw.replace('_', ' ')}",
                                  M.where(f2, call))
                continue
            rep.ok(rid, construct)
    rep.floor(rid, 3 + 4)


# ----------------------------------------------------------------------------- R13.3
def r13_3(rep, M, rid):
    fq = CLUSTER + ".get_dimensionality"
    fn = M.func(fq)
    stores = []
    for f2 in M.functions():
        for n in M.own_nodes(f2):
            if isinstance(n, (ast.Assign, ast.AugAssign)):
                tg = n.targets if isinstance(n, ast.Assign) else [n.target]
                for t in tg:
                    if isinstance(t, ast.Attribute) and t.attr == "_dimensionality":
                        ty = M.types_of(f2, t.value)
                        if any(x == ("obj", CLUSTER) for x in ty) or (isinstance(t.value, ast.Name) and t.value.id == "self"
                                                                      and M.enclosing_class(f2) == CLUSTER):
                            stores.append((f2, n))
    guarded = 0
    for f2, n in stores:
        construct = f"{f2.replace('matid.', '')}: {norm(n)[:80]}"
        if isinstance(n, ast.Assign) and isinstance(n.value, ast.Constant) and n.value.value is None:
            rep.ok(rid, construct + " [reset]")
            continue
        if M.defs[f2].name == "__init__" and M.enclosing_class(f2) == CLUSTER:
            rep.ok(rid, construct + " [constructor]")
            continue
        if f2 == fq:
            ok = False
            for p in ast.walk(fn):
                if isinstance(p, ast.If) and n in p.body and is_none_test_of_self(p.test, "_dimensionality"):
                    ok = True
            if ok:
                guarded += 1
                rep.ok(rid, construct + " [under None guard]")
                continue
        rep.violation(rid, construct, "the cached dimensionality is overwritten outside its `is None` guard: repeated "
                      "calls may return different values", M.where(f2, n))
    rets = [s for s in M.own_nodes(fq) if isinstance(s, ast.Return)]
    if guarded and all(isinstance(r.value, ast.Attribute) and r.value.attr == "_dimensionality" for r in rets):
        rep.ok(rid, "Cluster.get_dimensionality returns the cached field")
    elif not guarded:
        # uncached implementation: acceptable iff it returns the geometry call directly every time
        calls = [n for n in M.own_nodes(fq) if isinstance(n, ast.Call) and GEO_DIM in M.callees_of_call(fq, n)]
        if calls:
            rep.ok(rid, "Cluster.get_dimensionality recomputes on every call (no cache)")
        else:
            rep.violation(rid, "Cluster.get_dimensionality return", "neither cached under a guard nor recomputed",
                          M.where(fq))
    else:
        rep.violation(rid, "Cluster.get_dimensionality return", "does not return the cached field", M.where(fq))


# ----------------------------------------------------------------------------- R13.4 one atom order
def r13_4(rep, M, rid):
    """atoms, cached sub-matrix and radii of a cluster must be taken in one and the same atom order"""
    uses = []
    for fq in M.functions():
        if M.parent.get(fq) != CLUSTER:
            continue
        for n in M.own_nodes(fq):
            if isinstance(n, ast.Subscript) and isinstance(n.ctx, ast.Load):
                base = norm(n.value)
                if base in ("self._system",) or base.replace("numpy.", "np.") in ("self._radii", "np.asarray(self._radii)", "np.array(self._radii)"):
                    uses.append((fq, base, n.slice, n))
            if isinstance(n, ast.Call) and norm(n.func).endswith("ix_"):
                for a in n.args:
                    uses.append((fq, "np.ix_", a, n))
    getter, setter = property_of(M, CLUSTER, "indices")
    ok_forms = {"self.indices"} | {"self." + b for b in backing_fields(getter)}
    bad = [(fq, base, idx, n) for fq, base, idx, n in uses if norm(idx) not in ok_forms]
    rep.count("per_atom_index_uses_in_Cluster", len(uses))
    if len(uses) < 3:
        raise AnalysisError(f"only {len(uses)} per-atom index uses found in class Cluster (atoms, matrix rows/columns, radii expected)")
    if bad:
        fq, base, idx, n = bad[0]
        rep.violation(rid, f"{fq.replace('matid.', '')}: {norm(n)[:60]}", f"`{base}` is indexed by `{norm(idx)}` while the other per-atom quantities of the cluster "
                      "use `self.indices` as stored: atoms, distance-matrix rows and radii are then in different orders and every atom gets another "
                      "atom's radius in the 2x supercell test", M.where(fq, n))
    else:
        rep.ok(rid, f"atoms, matrix rows/columns and radii are all indexed by `self.indices` ({len(uses)} uses)")


def r13_5(rep, M, rid):
    """the distance record a cluster works with is this call's get_distances(system_copy, radii)"""
    from . import c01
    GC = "matid.clustering.sbc.SBC.get_clusters"
    fl = Flow(M.func(GC))
    gd = M.calls_to(GC, "matid.geometry.geometry.get_distances")
    for call in M.calls_to(GC, CLUSTER + ".__init__") + M.calls_to(GC, "matid.clustering.sbc.SBC._merge_clusters") + \
            M.calls_to(GC, "matid.clustering.sbc.SBC._localize_clusters"):
        callee = next(iter(M.callees_of_call(GC, call)))
        a = M.bind_args(callee, call).get("distances")
        if a is None:
            continue
        sl = fl.slice(a, fl.node_of(call))
        ok = gd and any(x is gd[0] for e in sl["exprs"] for x in ast.walk(e)) and not any(
            isinstance(x, ast.Attribute) and isinstance(x.value, ast.Name) and x.value.id == "self" for e in sl["exprs"] for x in ast.walk(e))
        if ok:
            rep.ok(rid, f"get_clusters: `distances` of {callee.split('.')[-2]}.{callee.split('.')[-1]} is this call's get_distances(system_copy, radii)")
        else:
            rep.violation(rid, f"get_clusters: `distances` of {callee.split('.')[-1]}", f"`{norm(a)}` is not (only) the result of get_distances computed in this "
                          "call with this call's radii: the cached 1x matrix and the forwarded radii can disagree", M.where(GC, call))
    if gd:
        b = M.bind_args("matid.geometry.geometry.get_distances", gd[0])
        r = b.get("radii")
        if r is not None and any("matid.geometry.geometry.get_radii" in M.callees_of_call(GC, c) for c in fl.calls_in_slice(r, fl.node_of(gd[0]))):
            rep.ok(rid, "get_clusters: get_distances receives the radii resolved in this call")
        else:
            rep.violation(rid, "get_clusters: radii of get_distances", "the distance record is not built with this call's resolved radii", M.where(GC, gd[0]))


def run(rep, ctx):
    M = ctx.model
    rep.explanation = ("typestate / def-use rules over class Cluster and every store to a Cluster's index set in the "
                       "repository (receivers typed by the repository model), plus forwarding of the clustering "
                       "context into the dimensionality shortcut")
    rep.assumptions = ["a cache is an attribute assigned under `if self.X is None`",
                       "receiver typing is flow-insensitive; an untyped receiver of `.indices` is not a Cluster"]
    rep.rule("R13.1", "every rewrite of a Cluster's index set is coherent with the caches derived from it "
                      "(setter invalidates / site invalidates / no fill can precede on the event order from get_clusters)")
    rep.rule("R13.2", "the shortcut forwards bond threshold, radii and its own atoms; Cluster(...) sites agree on the context keywords")
    rep.rule("R13.3", "the cached dimensionality is written once under its None guard and returned")
    with rep.guard("R13.1"):
        r13_1(rep, M, "R13.1")
    with rep.guard("R13.2"):
        r13_2(rep, M, "R13.2")
    with rep.guard("R13.3"):
        r13_3(rep, M, "R13.3")
    rep.rule("R13.4", "atoms, cached sub-matrix and radii of a cluster are taken in one atom order")
    with rep.guard("R13.4"):
        r13_4(rep, M, "R13.4")
    rep.rule("R13.5", "the distance record of the clusters is computed in the same get_clusters call with the same radii (nothing carried between calls)")
    with rep.guard("R13.5"):
        r13_5(rep, M, "R13.5")
    rep.rule("R13.6", "where the two evaluations differ - cached matrix from get_distances vs the 1x evaluation inside get_dimensionality, per-atom radii vs resolved preset - "
             "the helpers satisfy their own rules (shared with C09/C10/C19; what both evaluations share, e.g. the 2x supercell step, cannot make them disagree and is not included)")
    with rep.guard("R13.6"):
        from . import shared as _sh
        _sh.dimensionality_first_evaluation(rep, ctx.model, "R13.6")
        _sh.radii(rep, ctx.model, "R13.6")
        _sh.distances(rep, ctx.model, "R13.6")
    rep.floor("R13.1", 1)
    rep.floor("R13.3", 2)


META = {
    "level": "other",
    "text": "static typestate and forwarding rules: decides, for every path of the code, that no Cluster can reach "
            "the caller with a cache built for an older index set, and that the shortcut evaluates the same atoms "
            "with the same threshold and radii as the direct call. These are necessary conditions of the property "
            "and the two ways it failed on the pinned tree; numerical equality of the two evaluations is not decided."
            " Also: atoms, cached sub-matrix and radii are taken in one atom order, the sub-matrix is cut from the radii-corrected field, bond threshold and radii of every Cluster originate (followed up the call graph) from the same-named get_clusters parameter, and the distance record is this call's (nothing carried between calls on one SBC object).",
    "note": "trusted: CPython ast; the repository model's receiver typing (flow-insensitive, repo classes only); "
            "caches are recognised by the `if self.X is None: self.X = ...` idiom.",
    "technique": "typestate (cache coherence) + def-use forwarding + sibling agreement over the resolved program",
}
