"""C05 - the conventional cell is the same crystal as the input, chirality preserved (structural clauses)."""
import ast

import numpy as np

from .. import linalg, spgref
from .. import symrules as SR
from .. import tableobl as TO
from ..dataflow import Flow
from ..model import norm, slice_text
from ..report import AnalysisError
from ..tables import idet, letters_of, normalizer_parts

SA = SR.SA
GS = SR.GS


def first_wins_guard(M):
    """structural facts that make 'an earlier candidate with the same letter permutation shadows a later one' true:
    identity first, table order kept, ranking appends in iteration order, element 0 is taken. Locals are identified by role:
    NORM = the list extended with the table entry, IDENT = the dict literal carrying the key "identity", REPS = the list the candidate
    dicts ({"transformation", "permutations"}) are appended to, BEST = the local recorded as self._best_transform."""
    fn = M.func(GS)
    facts = {}
    body = [s for s in ast.walk(fn)]
    ext = [c for c in body if isinstance(c, ast.Call) and isinstance(c.func, ast.Attribute) and c.func.attr in ("extend", "__iadd__") and isinstance(c.func.value, ast.Name)
           and c.args and "CHIRALITY_PRESERVING_EUCLIDEAN_NORMALIZERS" in norm(c.args[0])]
    NORM = ext[0].func.value.id if ext else None
    if NORM is None:
        # the table entry may be bound directly: normalizers = TABLE.get(...)
        direct = [s2 for s2 in body if isinstance(s2, ast.Assign) and isinstance(s2.targets[0], ast.Name) and "CHIRALITY_PRESERVING_EUCLIDEAN_NORMALIZERS" in norm(s2.value)]
        NORM = direct[0].targets[0].id if direct else None
    ident = [norm(s2.targets[0]) for s2 in body if isinstance(s2, ast.Assign) and isinstance(s2.value, ast.Dict)
             and any(isinstance(k, ast.Constant) and k.value == "identity" for k in s2.value.keys)]
    IDENT = ident[0] if ident else None
    cand = [norm(s2.targets[0]) for s2 in body if isinstance(s2, ast.Assign) and isinstance(s2.value, ast.Dict)
            and {k.value for k in s2.value.keys if isinstance(k, ast.Constant)} >= {"transformation", "permutations"}
            and not any(isinstance(k, ast.Constant) and k.value == "identity" for k in s2.value.keys)]
    reps_app = [c for c in body if isinstance(c, ast.Call) and isinstance(c.func, ast.Attribute) and c.func.attr == "append" and c.args and norm(c.args[0]) in cand]
    REPS = norm(reps_app[0].func.value) if reps_app else None
    best = [s2 for s2 in body if isinstance(s2, ast.Assign) and norm(s2.targets[0]) == "self._best_transform" and isinstance(s2.value, ast.Name) and s2.value.id != IDENT]
    BEST = best[0].value.id if best else None
    app = [c for c in body if isinstance(c, ast.Call) and isinstance(c.func, ast.Attribute) and c.func.attr in ("append", "extend", "insert")
           and NORM is not None and norm(c.func.value) == NORM]
    app.sort(key=lambda c: (c.lineno, c.col_offset))
    facts["identity_first"] = bool(app) and app[0].func.attr == "append" and norm(app[0].args[0]) == IDENT and \
        all(c.func.attr != "insert" for c in app)
    facts["table_extended"] = any(c.func.attr == "extend" and "CHIRALITY_PRESERVING_EUCLIDEAN_NORMALIZERS" in norm(c.args[0]) for c in app)
    facts["no_reorder"] = not any(isinstance(c, ast.Call) and ((isinstance(c.func, ast.Name) and c.func.id in ("sorted", "reversed"))
                                                                or (isinstance(c.func, ast.Attribute) and c.func.attr in ("sort", "reverse", "shuffle")))
                                  and any(isinstance(x, ast.Name) and x.id in (NORM, REPS) for x in ast.walk(c))
                                  for c in body)
    # every normalizer yields exactly one ranked candidate: the append is unconditional in the construction loop
    facts["every_candidate_ranked"] = False
    for lp in body:
        if isinstance(lp, ast.For) and NORM is not None and norm(lp.iter) == NORM:
            apps = [c for c in ast.walk(lp) if isinstance(c, ast.Call) and isinstance(c.func, ast.Attribute) and c.func.attr == "append"
                    and norm(c.func.value) == REPS]
            if apps:
                top = [st for st in lp.body if any(c is apps[0] for c in ast.walk(st))]
                skips = [x for x in ast.walk(lp) if isinstance(x, (ast.Continue, ast.Break))]
                facts["every_candidate_ranked"] = bool(top) and isinstance(top[0], ast.Expr) and not skips
    picks = [s for s in body if isinstance(s, ast.Assign) and BEST is not None and norm(s.targets[0]) == BEST
             and isinstance(s.value, ast.Subscript)]
    facts["takes_first"] = bool(picks) and all(norm(s.value) == f"{REPS}[0]" for s in picks)
    return facts


def chirality_filter(M):
    """(b): candidates are filtered by determinant sign before ranking"""
    fn = M.func(GS)
    for t in ast.walk(fn):
        if isinstance(t, (ast.If, ast.comprehension)):
            test = t.test if isinstance(t, ast.If) else (t.ifs[0] if t.ifs else None)
            if test is None:
                continue
            if any(isinstance(c, ast.Call) and SR.resolver(M, GS)(c.func) == "numpy.linalg.det" for c in ast.walk(test)) or \
                    any(isinstance(c, ast.Call) and SR.resolver(M, GS)(c.func) == "numpy.linalg.det"
                        for s in ast.walk(fn) if isinstance(s, ast.Assign) and any(isinstance(x, ast.Name) and isinstance(test, ast.AST)
                                                                                     and x.id in {y.id for y in ast.walk(test) if isinstance(y, ast.Name)}
                                                                                     for x in s.targets if isinstance(x, ast.Name))
                        for c in ast.walk(s.value)):
                return True
    return False


def r05_1(rep, M, T, rid):
    soh = spgref.sohncke()
    rep.count("sohncke_groups", len(soh))
    if len(soh) != 65:
        raise AnalysisError(f"reference gives {len(soh)} Sohncke groups, expected 65")
    N = T["CHIRALITY_PRESERVING_EUCLIDEAN_NORMALIZERS"]
    W = T["WYCKOFF_SETS"]
    facts = first_wins_guard(M)
    filt = chirality_filter(M)
    guard_ok = all(facts.values())
    for g in sorted(soh):
        lst = N.get(g, [])
        letters = letters_of(W[g])
        seen = [{l: l for l in letters}]
        improper, reachable = [], []
        for i, n in enumerate(lst):
            try:
                P, p, _ = normalizer_parts(n)
            except (ValueError, KeyError, TypeError):
                continue
            d = idet(P)
            perm = n.get("permutations")
            if d == -1:
                improper.append(i)
                if perm not in seen:
                    reachable.append(i)
            elif d == 1:
                seen.append(perm)
        key = f"Sohncke group {g}"
        if not improper:
            rep.ok(rid, key + ": no improper normalizer tabulated")
        elif filt:
            rep.ok(rid, key + f": {len(improper)} improper entries, candidates are filtered by determinant before ranking")
        elif not reachable and guard_ok:
            rep.ok(rid, key + f": {len(improper)} improper entries, all shadowed by an earlier proper candidate with the same letter permutation")
        elif not reachable:
            rep.violation(rid, key + " shadowing guard", f"improper entries {improper} are only unreachable if the first of equal candidates "
                          f"wins, but {sorted(k for k, v in facts.items() if not v)} does not hold in _find_wyckoff_ground_state", M.where(GS))
        else:
            for i in reachable:
                rep.violation(rid, f"NORMALIZERS[{g}][{i}] reachable improper", "an improper (det -1) transformation with a letter permutation "
                              "no earlier proper candidate has can be selected for a crystal of this chiral group: the conventional "
                              "system is returned as the mirror image of the input", f"matid/data/symmetry_data.py (group {g}, entry {i})")


def _gs_fed_by_memo(M):
    """every call of _find_wyckoff_ground_state passes, as the system, a local whose only definitions are self._get_spglib_conventional_system()"""
    n = 0
    for f in [x for x in M.cls(SA).body if isinstance(x, ast.FunctionDef)]:
        for c in ast.walk(f):
            if isinstance(c, ast.Call) and isinstance(c.func, ast.Attribute) and c.func.attr == "_find_wyckoff_ground_state":
                b = M.bind_args(GS, c) if hasattr(M, "bind_args") else None
                a = (b or {}).get(M.params(GS)[2]) if b else (c.args[2] if len(c.args) > 2 else None)
                if not isinstance(a, ast.Name):
                    return False
                defs = [s.value for s in ast.walk(f) if isinstance(s, ast.Assign) and any(isinstance(t, ast.Name) and t.id == a.id for t in s.targets)]
                if not defs or any(norm(d) != "self._get_spglib_conventional_system()" for d in defs):
                    return False
                n += 1
    return n > 0


def r05_3(rep, M, rid, strict=True, T=None):
    fn = M.func(GS)
    fl = Flow(fn)
    env = {}
    cnt = {}
    for s in ast.walk(fn):
        if isinstance(s, ast.Assign) and isinstance(s.targets[0], ast.Name):
            env.setdefault(s.targets[0].id, s.value)
            cnt[s.targets[0].id] = cnt.get(s.targets[0].id, 0) + 1
    single = {k: v for k, v in env.items() if cnt[k] == 1}
    sysparam = M.params(GS)[2]
    wraps = [c for c in ast.walk(fn) if isinstance(c, ast.Call) and "matid.geometry.geometry.get_wrapped_positions" in M.callees_of_call(GS, c)]
    if not wraps:
        rep.violation(rid, "post-processing of transformed positions", "the transformed positions are not wrapped into [0, 1)", M.where(GS))
        return
    E = wraps[0].args[0]
    # a rigid motion moves every atom: no row-selective store into the array that is wrapped and installed
    if isinstance(E, ast.Name):
        part = [s2 for s2 in ast.walk(fn) if isinstance(s2, (ast.Assign, ast.AugAssign))
                for t2 in (s2.targets if isinstance(s2, ast.Assign) else [s2.target])
                if isinstance(t2, ast.Subscript) and norm(t2.value) == E.id and not slice_text(t2).replace(" ", "").startswith(":")]
        if part:
            rep.violation(rid, "application of the normalizer", f"`{norm(part[0])[:80]}` transforms only a selection of the atoms: a normalizer is a rigid motion of the "
                          "whole crystal, moving one sublattice and not the other gives a structure that is not congruent with the standardised input",
                          M.where(GS, part[0]))
            return
    # follow plain names / column selections back to the expression that applies the matrix
    cols = False
    cur = E
    at_cur = fl.node_of(wraps[0])
    for _ in range(8):
        if isinstance(cur, ast.Name):
            defs = [d for d in fl.rd[at_cur].get(cur.id, ()) if d != fl.cfg.entry]
            vals = [(d, v) for d in defs for k, v, *_ in [tuple(x) + (None,) for x in fl.def_value(d, cur.id)] if k == "expr"]
            if len(vals) != 1:
                break
            at_cur, cur = vals[0]
        elif isinstance(cur, ast.Subscript) and slice_text(cur).replace(" ", "") in (":,0:3", ":,:3"):
            cols = True
            cur = cur.value
        else:
            break
    res = SR.resolver(M, GS)
    # names that hold the scaled positions of the standardised system
    posnames = {k for k, v in single.items() if isinstance(v, ast.Call) and isinstance(v.func, ast.Attribute) and v.func.attr == "get_scaled_positions"
                and norm(v.func.value) == sysparam}
    tmat = next((k for k, v in single.items() if isinstance(v, ast.Subscript) and isinstance(v.slice, ast.Constant) and v.slice.value == "transformation"), None)
    if tmat is None:
        raise AnalysisError("_find_wyckoff_ground_state: the chosen transformation matrix is not bound to a name")
    f = linalg.nf(cur, res, {})
    names = [x[0] for x in f] if f else []
    if f and len(f) == 2 and tmat in names and not posnames & set(names):
        # homogeneous form
        xname = next(n for n in names if n != tmat)
        want = [(xname, False, False), (tmat, False, True)]
        sym = False
        if not strict and T is not None:
            # C05 only needs *a* proper rigid motion: if every tabulated rotation part is symmetric, R and R^T coincide and a lost
            # translation is a lattice-independent shift of the whole crystal (still congruent)
            sym = all((np.array(n["transformation"])[:3, :3] == np.array(n["transformation"])[:3, :3].T).all()
                      for lst in T["CHIRALITY_PRESERVING_EUCLIDEAN_NORMALIZERS"].values() for n in lst)
        aug = [s2 for s2 in ast.walk(fn) if isinstance(s2, ast.AugAssign) and isinstance(s2.target, ast.Subscript) and norm(s2.target.value) == xname]
        if aug and strict:
            rep.violation(rid, "application of the normalizer", f"`{norm(aug[0])}` modifies the positions before the matrix is applied: the origin shift "
                          "is then rotated as well (R (x + t) instead of R x + t)", M.where(GS, aug[0]))
        if f == want:
            rep.ok(rid, f"transformed positions = {linalg.show(f)} (homogeneous row vectors times the transposed 4x4)")
        elif sym and f == [(xname, False, False), (tmat, False, False)]:
            rep.ok(rid, f"transformed positions = {linalg.show(f)}: all tabulated rotation parts are symmetric, so this is still a proper rigid motion "
                        "(the translation is lost; letters/positions consistency is checked under C06/C07/C14)")
        else:
            rep.violation(rid, "application of the normalizer", f"computes {linalg.show(f)}; the tables hold column-convention 4x4 matrices "
                          f"(x' = T x), so row-vector positions need {linalg.show(want)}: with the transpose missing the translation column is "
                          "ignored and the rotation is inverted", M.where(GS, cur))
        st = [s for s in ast.walk(fn) if isinstance(s, ast.Assign) and isinstance(s.targets[0], ast.Subscript) and norm(s.targets[0].value) == xname]
        ones = [s for s in st if isinstance(s.value, ast.Constant) and s.value.value == 1 and slice_text(s.targets[0]).replace(" ", "") == ":,3"]
        pos = [s for s in st if any(isinstance(c, ast.Call) and isinstance(c.func, ast.Attribute) and c.func.attr == "get_scaled_positions" for c in ast.walk(s.value))
               and slice_text(s.targets[0]).replace(" ", "") in (":,0:3", ":,:3")]
        if ones and pos:
            rep.ok(rid, f"{xname} = [scaled positions | 1] (homogeneous row vectors)")
        else:
            rep.violation(rid, "homogeneous coordinates", f"`{xname}` is not filled as [scaled positions, 1]: {[norm(s)[:50] for s in st]}", M.where(GS, cur))
        if pos and norm(next(c for c in ast.walk(pos[0].value) if isinstance(c, ast.Call) and isinstance(c.func, ast.Attribute)
                             and c.func.attr == "get_scaled_positions").func.value) == sysparam:
            rep.ok(rid, "positions are those of the spglib-standardised system")
        else:
            rep.violation(rid, "homogeneous coordinates source", "positions are not the scaled positions of the standardised system", M.where(GS))
        if cols:
            rep.ok(rid, "the first three columns of the homogeneous result are kept")
        else:
            rep.violation(rid, "homogeneous coordinates result", "the fourth (homogeneous) column is not dropped", M.where(GS, E))
    else:
        # block form: X . R^T + t with R = T[:3, :3], t = T[:3, 3]
        if not posnames:
            # the scaled positions are read inline: give the call a name so that the affine normal form can be taken in it
            class _Inline(ast.NodeTransformer):
                hit = 0

                def visit_Call(self, node):
                    if isinstance(node.func, ast.Attribute) and node.func.attr == "get_scaled_positions" and norm(node.func.value) == sysparam:
                        _Inline.hit += 1
                        return ast.copy_location(ast.Name(id="scaled_positions_of_the_standardised_system", ctx=ast.Load()), node)
                    return self.generic_visit(node)
            import copy as _copy
            cur2 = _Inline().visit(_copy.deepcopy(cur))
            if _Inline.hit == 1:
                cur0, cur = cur, cur2
                posnames = {"scaled_positions_of_the_standardised_system"}
        if len(posnames) != 1:
            raise AnalysisError("_find_wyckoff_ground_state: application of the transformation not recognised (neither homogeneous nor block form)")
        xname = next(iter(posnames))
        env2 = {k: v for k, v in single.items() if k != xname}
        af = linalg.affine(cur, res, env2, xname)
        if af is None:
            raise AnalysisError(f"_find_wyckoff_ground_state: `{norm(cur)[:60]}` is not an affine map of the positions")
        lin, consts = af

        def is_block(factor, kind):
            txt = factor[0].replace(" ", "")
            pats = {"R": (f"{tmat}[0:3,0:3]", f"{tmat}[:3,:3]"), "t": (f"{tmat}[0:3,3]", f"{tmat}[:3,3]")}[kind]
            return txt in pats
        ok_lin = lin is not None and len(lin) == 1 and is_block(lin[0], "R") and lin[0][2] and not lin[0][1]
        ok_const = len(consts) == 1 and len(consts[0]) == 1 and is_block(consts[0][0], "t") and not consts[0][0][1]
        shown = "X . " + linalg.show(lin) + " + " + " + ".join(linalg.show(c) for c in consts) if lin is not None else "?"
        lenient_ok = (not strict) and lin is not None and len(lin) == 1 and is_block(lin[0], "R") and not lin[0][1]
        if ok_lin and ok_const:
            rep.ok(rid, f"transformed positions = {shown} (row vectors: rotation block transposed, translation added once, unrotated)")
            rep.ok(rid, "positions are those of the spglib-standardised system")
            rep.ok(rid, "block form: no homogeneous column to drop")
        elif lenient_ok:
            rep.ok(rid, f"transformed positions = {shown}: the linear part is the tabulated (proper) rotation block, hence a rigid motion of the standardised atoms")
            rep.ok(rid, "positions are those of the spglib-standardised system")
            rep.ok(rid, "block form: no homogeneous column to drop")
        else:
            rep.violation(rid, "application of the normalizer", f"computes {shown}; x' = R x + t for row vectors is X . {tmat}[:3,:3]^T + {tmat}[:3,3] "
                          "(translation added after the rotation, exactly once)", M.where(GS, cur))
    setc = [c for c in ast.walk(fn) if isinstance(c, ast.Call) and isinstance(c.func, ast.Attribute) and c.func.attr == "set_scaled_positions"]
    if not setc:
        rep.violation(rid, "target of the transformed positions", "the transformed positions are never set on the returned system "
                      "(letters are permuted but atoms stay where spglib put them)", M.where(GS))
        return
    at = fl.node_of(setc[0])
    sl = fl.slice(setc[0].args[0], at)
    wrapped = any(c is wraps[0] for e in sl["exprs"] for c in ast.walk(e))
    if wrapped:
        rep.ok(rid, "the wrapped result of the transformation is what set_scaled_positions receives")
    else:
        rep.violation(rid, "post-processing of transformed positions", "set_scaled_positions does not receive the wrapped transformed positions", M.where(GS, setc[0]))
    recv = setc[0].func.value
    rdef = env.get(recv.id) if isinstance(recv, ast.Name) else None
    if rdef is not None and norm(rdef) == f"{M.params(GS)[2]}.copy()":
        rep.ok(rid, "the transformed positions are set on a copy of the standardised system (lattice, species, atom count unchanged)")
    elif rdef is not None and norm(rdef) == M.params(GS)[2] and _gs_fed_by_memo(M) and SR.memo_read_once(M, "_get_spglib_conventional_system", "get_conventional_system"):
        rep.ok(rid, "the transformed positions are set on the standardised system itself: it is the memo of _get_spglib_conventional_system, whose only reader is the "
                    "memo-guarded get_conventional_system, so the in-place change is not observable (lattice, species, atom count unchanged)")
    else:
        rep.violation(rid, "target of the transformed positions", f"`{norm(recv)}` is not a copy of the standardised system", M.where(GS, setc[0]))
    # standardisation source
    fq = SA + "._get_spglib_conventional_system"
    fn2 = M.func(fq)
    attrs = {x.attr for x in ast.walk(fn2) if isinstance(x, ast.Attribute)}
    if {"std_lattice", "std_positions", "std_types"} <= attrs:
        rep.ok(rid, "standardised system = (std_lattice, std_positions, std_types) of the dataset")
    else:
        rep.violation(rid, "_get_spglib_conventional_system", "is not built from std_lattice/std_positions/std_types", M.where(fq))
    d2s = SA + "._spglib_description_to_system"
    c2 = [c for c in ast.walk(M.func(d2s)) if isinstance(c, ast.Call) and M.resolve(d2s, c.func) == ("ext", "ase.Atoms")]
    kw = {k.arg: norm(k.value) for k in c2[0].keywords} if c2 else {}
    if kw.get("cell") == "desc[0]" and kw.get("scaled_positions") == "desc[1]" and kw.get("numbers") == "desc[2]":
        rep.ok(rid, "_spglib_description_to_system maps (cell, scaled positions, numbers) in order")
    else:
        rep.violation(rid, "_spglib_description_to_system", f"Atoms built with {kw}", M.where(d2s))


def r05_5(rep, M, rid, order_matters=False):
    """spglib sees exactly the analysed structure: (cell, scaled positions, numbers) unmodified"""
    fq = SA + "._system_to_spglib_description"
    fn = M.func(fq)
    fl = Flow(fn)
    rets = [r for r in ast.walk(fn) if isinstance(r, ast.Return) and r.value is not None]
    if not rets:
        raise AnalysisError("_system_to_spglib_description: no return")
    for r in rets:
        at = fl.node_of(r)
        v = r.value
        if isinstance(v, ast.Name):
            defs = [d for d in fl.rd[at].get(v.id, ()) if d != fl.cfg.entry]
            vals = [x[1] for d in defs for x in fl.def_value(d, v.id) if x[0] == "expr"]
            v = vals[0] if len(vals) == 1 else v
        if not (isinstance(v, ast.Tuple) and len(v.elts) == 3):
            raise AnalysisError("_system_to_spglib_description: returned description is not a 3-tuple")
        want = ("get_cell", "get_scaled_positions", "get_atomic_numbers")
        for el, getter in zip(v.elts, want):
            sl = fl.slice(el, at)
            got = [c.func.attr for e in sl["exprs"] for c in ast.walk(e) if isinstance(c, ast.Call) and isinstance(c.func, ast.Attribute)]
            arith = [norm(x) for e in sl["exprs"] for x in ast.walk(e) if isinstance(x, (ast.BinOp, ast.UnaryOp, ast.IfExp))]
            # a selection / reordering of the rows (atoms) is a modification too: the dataset's per-atom arrays follow the order spglib was given
            # (only where per-original-atom arrays are observed; a consistent reordering of positions and numbers describes the same crystal)
            if order_matters:
                arith += [norm(x) for x in ast.walk(el) if isinstance(x, ast.Subscript)]
                arith += [norm(x) for e in sl["exprs"] for x in ast.walk(e) if isinstance(x, ast.Subscript) and not isinstance(x.slice, ast.Constant)]
            defs = fl.rd[at].get(el.id, ()) if isinstance(el, ast.Name) else ()
            if getter in got and not arith and len(defs) <= 1:
                rep.ok(rid, f"spglib description: {getter}() of the analysed system, unmodified")
            else:
                rep.violation(rid, f"_system_to_spglib_description: {getter.replace('get_', '')}", f"`{norm(el)}` is not the plain {getter}() of the analysed "
                              f"system ({'modified by ' + arith[0] if arith else 'conditionally redefined' if len(defs) > 1 else 'source ' + str(got)}): changing the "
                              "cell without the coordinates (or vice versa) hands spglib another crystal, e.g. the enantiomorph; reordering the atoms makes the "
                              "dataset's per-atom letters / orbits / mappings refer to another atom order than the original system", M.where(fq, el))


def r05_5b(rep, M, rid):
    """what comes back from spglib is turned into a system without changing convention: spglib lattices hold the basis vectors as
    rows exactly like ase cells, so (std_lattice, std_positions, std_types) are used as they are"""
    FIELDS = {"std_lattice": "cell", "std_positions": "scaled positions", "std_types": "numbers", "primitive_lattice": "cell"}
    n = 0
    for q, d in M.functions().items():
        if M.parent.get(q) != SA:
            continue
        calls = M.calls_to(q, SA + "._spglib_description_to_system")
        if not calls:
            continue
        fl = Flow(d)
        for c in calls:
            desc = c.args[0] if c.args else None
            at = fl.node_of(c)
            if isinstance(desc, ast.Name):
                vals = [x[1] for dn in fl.rd[at].get(desc.id, ()) if dn != fl.cfg.entry for x in fl.def_value(dn, desc.id) if x[0] == "expr"]
                desc = vals[0] if len(vals) == 1 else desc
            if not (isinstance(desc, ast.Tuple) and len(desc.elts) == 3):
                raise AnalysisError(f"{d.name}: description passed to _spglib_description_to_system is not a 3-tuple")
            for el, want in zip(desc.elts, ("lattice", "positions", "types")):
                sl = fl.slice(el, at)
                attrs = [x.attr for e in sl["exprs"] for x in ast.walk(e) if isinstance(x, ast.Attribute) and x.attr in FIELDS]
                keys = [x.slice.value for e in sl["exprs"] for x in ast.walk(e) if isinstance(x, ast.Subscript) and isinstance(x.slice, ast.Constant)
                        and x.slice.value in FIELDS]
                src = attrs + keys
                changed = [norm(x) for e in sl["exprs"] for x in ast.walk(e)
                           if (isinstance(x, ast.Attribute) and x.attr == "T") or isinstance(x, (ast.BinOp, ast.UnaryOp))
                           or (isinstance(x, ast.Call) and (M.ext_name(q, x.func) or "") in ("numpy.transpose", "numpy.linalg.inv", "numpy.dot", "numpy.flip"))
                           or (isinstance(x, ast.Call) and isinstance(x.func, ast.Attribute) and x.func.attr == "transpose")]
                if not src:
                    continue
                n += 1
                if len(set(src)) == 1 and want in src[0] and not changed:
                    rep.ok(rid, f"{d.name}: spglib's {src[0]} is used as the {FIELDS[src[0]]} unchanged")
                elif changed:
                    rep.violation(rid, f"{d.name}: `{norm(el)}` <- {src}", f"spglib's {src[0]} is changed by `{changed[0]}` before it becomes the {FIELDS[src[0]]}: spglib "
                                  "lattices hold the basis vectors as rows like ase cells, so the fractional positions are paired with another lattice (a transposed "
                                  "lattice differs whenever the matrix is not symmetric: triclinic, monoclinic, trigonal, hexagonal) and the atoms are sheared",
                                  M.where(q, c))
                else:
                    rep.violation(rid, f"{d.name}: `{norm(el)}` <- {src}", f"the {want} slot of the description is filled from {src}", M.where(q, c))
    if n < 3:
        raise AnalysisError(f"only {n} spglib dataset fields found flowing into _spglib_description_to_system")


def r05_6(rep, M, rid, reduction=False):
    """wrapping may snap coordinates to the cell faces only within numerical noise.
    reduction=True: the borrowing property also states that the values handed out lie in [0, 1) (C08's parameters); for the others a
    coordinate outside [0, 1) is the same atom modulo the lattice"""
    fq = "matid.geometry.geometry.get_wrapped_positions"
    fn = M.func(fq)
    # what is returned has been reduced modulo 1 on every path (values in [0, 1)): `x %= 1`, `x = x % 1`, `x = np.mod(x, 1)` / np.remainder,
    # `x -= np.floor(x)`; a call whose result is dropped reduces nothing
    from ..cfg import CFG
    cfg = CFG(fn)
    rets = [(n, d["ast"]) for n, d in cfg.g.nodes(data=True) if isinstance(d["ast"], ast.Return) and d["ast"].value is not None]
    if not rets or not all(isinstance(r.value, ast.Name) for _, r in rets):
        raise AnalysisError("get_wrapped_positions: returned array not recognised")

    def is_one(e):
        return isinstance(e, ast.Constant) and e.value in (1, 1.0)

    def reduces(st, name):
        if isinstance(st, ast.AugAssign) and isinstance(st.target, ast.Name) and st.target.id == name:
            if isinstance(st.op, ast.Mod) and is_one(st.value):
                return True
            if isinstance(st.op, ast.Sub) and isinstance(st.value, ast.Call) and norm(st.value.func).endswith("floor") and norm(st.value.args[0]) == name:
                return True
        if isinstance(st, ast.Assign) and len(st.targets) == 1 and norm(st.targets[0]) in (name, name + "[:]", name + "[...]"):
            v = st.value
            if isinstance(v, ast.BinOp) and isinstance(v.op, ast.Mod) and is_one(v.right):
                return True
            if isinstance(v, ast.Call) and norm(v.func).split(".")[-1] in ("mod", "remainder", "fmod") and len(v.args) >= 2 and is_one(v.args[1]):
                return norm(v.func).split(".")[-1] != "fmod" or None     # fmod keeps the sign of the dividend: not a reduction into [0, 1)
            if isinstance(v, ast.BinOp) and isinstance(v.op, ast.Sub) and isinstance(v.right, ast.Call) and norm(v.right.func).endswith("floor"):
                return True
        return False
    for n, r in (rets if reduction else []):
        name = r.value.id
        red = [m for m, d in cfg.g.nodes(data=True) if d["ast"] is not None and reduces(d["ast"], name)]
        dropped = [d["ast"] for m, d in cfg.g.nodes(data=True) if isinstance(d["ast"], ast.Expr) and isinstance(d["ast"].value, ast.Call)
                   and norm(d["ast"].value.func).split(".")[-1] in ("mod", "remainder", "fmod", "floor", "round", "around", "rint")
                   and not any(k.arg == "out" for k in d["ast"].value.keywords)]
        if red and cfg.all_paths_pass(cfg.entry, n, red):
            rep.ok(rid, f"get_wrapped_positions: `{name}` is reduced modulo 1 on every path before it is returned")
        elif dropped:
            rep.violation(rid, "get_wrapped_positions: reduction into [0, 1)", f"`{norm(dropped[0])}` computes the reduced coordinates and drops them (no assignment, "
                          f"no out=): `{name}` is returned as it came in, so coordinates outside [0, 1) - and with them negative Wyckoff parameters - are handed out",
                          M.where(fq, dropped[0]))
        else:
            rep.violation(rid, "get_wrapped_positions: reduction into [0, 1)", f"`{name}` is not reduced modulo 1 on every path before it is returned "
                          "(a sign-keeping np.fmod does not count): values outside [0, 1) are handed out", M.where(fq, r))
    dfl = fn.args.defaults
    prec = None
    for a, dv in zip(fn.args.args[len(fn.args.args) - len(dfl):], dfl):
        if a.arg == "precision" and isinstance(dv, ast.Constant):
            prec = dv.value
    calls = M.calls_to(GS, fq)
    for c in calls:
        b = M.bind_args(fq, c)
        p = b.get("precision")
        val = p.value if isinstance(p, ast.Constant) else (prec if p is None else None)
        if val is None:
            raise AnalysisError("get_wrapped_positions precision is not a literal")
        if val <= 1e-4:
            rep.ok(rid, f"transformed positions are snapped to the cell faces only within {val} (fractional): numerical noise, not atomic displacements")
        else:
            rep.violation(rid, "get_wrapped_positions precision", f"coordinates within {val} (fractional, i.e. up to {val * 10:.2g} A in a 10 A cell) of a cell face "
                          "are moved onto it: individual atoms are displaced, which is not a rigid motion of the crystal and can change its space group",
                          M.where(fq))


def run(rep, ctx):
    M, T = ctx.model, ctx.tables
    rep.explanation = ("reachability of improper normalizers for the 65 Sohncke groups (tables x structural first-wins guard), "
                       "exact automorphism/isometry obligations for every normalizer, and convention normal form + def-use rules for "
                       "the application of the chosen 4x4 transformation")
    rep.assumptions = ["space-group equality and congruence for a concrete crystal come from spglib at run time and are not decided"]
    rep.rule("R05.1", "no improper normalizer can be applied to a crystal of a Sohncke group")
    rep.rule("R05.2", "every normalizer is an affine automorphism of the group and an isometry of a generic lattice")
    rep.rule("R05.3", "the chosen transformation is applied in the convention of the table, wrapped, on a copy of the standardised cell")
    with rep.guard("R05.1"):
        r05_1(rep, M, T, "R05.1")
    TO.norm_shape(rep, T, "R05.2")
    TO.norm_conjugation(rep, T, "R05.2")
    TO.norm_metric(rep, T, "R05.2")
    with rep.guard("R05.3"):
        r05_3(rep, M, "R05.3", strict=False, T=T)
        from .. import symrules as _SRg
        _SRg.ground_state_consistency_raises(rep, M, "R05.3")
    rep.rule("R05.5", "spglib is given the analysed structure unmodified (cell, scaled positions and numbers of one and the same object)")
    with rep.guard("R05.5"):
        r05_5(rep, M, "R05.5")
        r05_5b(rep, M, "R05.5")
    rep.rule("R05.6", "re-wrapping of the transformed positions snaps coordinates only within numerical noise")
    with rep.guard("R05.6"):
        r05_6(rep, M, "R05.6")
    rep.rule("R05.4", "every memoised result of the analyzer is dropped by reset(), which set_system() calls (no answers for a previous structure)")
    with rep.guard("R05.4"):
        from .. import symrules as _SR
        _SR.reset_covers_caches(rep, ctx.model, "R05.4")
    rep.rule("R05.7", "the symmetry tolerance given to the analyzer reaches spglib (through segfault_protect)")
    with rep.guard("R05.7"):
        from .. import symrules as _SR2
        _SR2.tolerance_reaches_spglib(rep, ctx.model, "R05.7")
    rep.rule("R05.8", "cached systems handed out by the analyzer are never modified afterwards")
    with rep.guard("R05.8"):
        from .. import symrules as _SR3
        _SR3.handed_out_objects_not_mutated(rep, ctx.model, "R05.8", three_d_only=True)
    rep.floor("R05.1", 65)
    rep.floor("R05.2", 2400)
    rep.floor("R05.3", 7)


META = {
    "level": "other",
    "text": "static rules: for each of the 65 Sohncke groups no improper normalizer is selectable (none tabulated, or filtered, or "
            "shadowed under a checked first-wins guard); every tabulated normalizer is proved an automorphism of the reference "
            "group and an isometry; the 4x4 matrix is applied in the table's convention to homogeneous scaled positions of the "
            "standardised cell, wrapped, on a copy (so lattice, species and atom count are the standardised ones by construction). "
            "Space-group equality / congruence for a concrete input is spglib's run-time result and is not decided."
            " R05.3 is applied leniently here (C05 only needs a proper rigid motion: all tabulated rotations are symmetric, so transposition or a lost translation is not a C05 violation; consistency of letters and positions is decided under C06/C07/C14); plus: spglib is handed the analysed structure unmodified, re-wrapping snaps coordinates only within numerical noise, and every memo of the analyzer is cleared by reset().",
    "note": "trusted: spglib Hall database; numpy dot/.T semantics; CPython ast.",
    "technique": "exact table obligations + reachability under a structural first-wins guard + matrix-convention normal form",
}
