"""Transpose / inverse convention normaliser for small matrix expressions.

An expression built from names with np.dot / @ / .T / np.linalg.inv / np.linalg.solve is reduced to
a product of atomic factors (name, inverted?, transposed?). Two expressions denote the same matrix
for all inputs iff their normal forms are equal (free non-commutative algebra with involutions), so
`np.linalg.solve(cell.T, X.T).T` and `X @ np.linalg.inv(cell)` normalise identically while
`X @ cell.T` differs from `X @ cell`.
"""
import ast

DOTS = {"numpy.dot", "numpy.matmul"}
INV = {"numpy.linalg.inv"}
SOLVE = {"numpy.linalg.solve"}
TRANSPOSE = {"numpy.transpose"}
IDENT = {"numpy.array", "numpy.asarray", "numpy.copy", "numpy.asanyarray"}


def T(f):
    return [(n, i, not t) for (n, i, t) in reversed(f)]


def I(f):
    return [(n, not i, t) for (n, i, t) in reversed(f)]


def simplify(f):
    out = []
    for x in f:
        if out and out[-1][0] == x[0] and out[-1][2] == x[2] and out[-1][1] != x[1]:
            out.pop()
        else:
            out.append(x)
    return out


def nf(e, resolve, env=None, depth=0):
    """normal form (list of factors) of expression e, or None if not a pure matrix product.
    resolve(func_expr) -> dotted external name or None. env: name -> expression (local definitions)"""
    env = env or {}
    if depth > 12:
        return None
    if isinstance(e, ast.Name):
        if e.id in env and env[e.id] is not None:
            sub = nf(env[e.id], resolve, {k: v for k, v in env.items() if k != e.id}, depth + 1)
            if sub is not None:
                return sub
        return [(e.id, False, False)]
    if isinstance(e, ast.Attribute):
        if e.attr == "T":
            sub = nf(e.value, resolve, env, depth + 1)
            return T(sub) if sub is not None else None
        return [(ast.unparse(e), False, False)]
    if isinstance(e, ast.BinOp) and isinstance(e.op, ast.MatMult):
        a, b = nf(e.left, resolve, env, depth + 1), nf(e.right, resolve, env, depth + 1)
        return simplify(a + b) if a is not None and b is not None else None
    if isinstance(e, ast.Call):
        name = resolve(e.func)
        if name in DOTS and len(e.args) == 2:
            a, b = nf(e.args[0], resolve, env, depth + 1), nf(e.args[1], resolve, env, depth + 1)
            return simplify(a + b) if a is not None and b is not None else None
        if isinstance(e.func, ast.Attribute) and e.func.attr == "dot" and len(e.args) == 1 and name is None:
            a, b = nf(e.func.value, resolve, env, depth + 1), nf(e.args[0], resolve, env, depth + 1)
            return simplify(a + b) if a is not None and b is not None else None
        if name in INV and e.args:
            sub = nf(e.args[0], resolve, env, depth + 1)
            return I(sub) if sub is not None else None
        if name in SOLVE and len(e.args) == 2:
            a, b = nf(e.args[0], resolve, env, depth + 1), nf(e.args[1], resolve, env, depth + 1)
            return simplify(I(a) + b) if a is not None and b is not None else None
        if name in TRANSPOSE and len(e.args) == 1:
            sub = nf(e.args[0], resolve, env, depth + 1)
            return T(sub) if sub is not None else None
        if isinstance(e.func, ast.Attribute) and e.func.attr == "transpose" and not e.args:
            sub = nf(e.func.value, resolve, env, depth + 1)
            return T(sub) if sub is not None else None
        if name in IDENT and e.args:
            return nf(e.args[0], resolve, env, depth + 1)
        if isinstance(e.func, ast.Attribute) and e.func.attr == "copy" and not e.args:
            return nf(e.func.value, resolve, env, depth + 1)
        return [(ast.unparse(e), False, False)]
    if isinstance(e, ast.Subscript):
        return [(ast.unparse(e), False, False)]
    return None


def show(f):
    if f is None:
        return "?"
    return " . ".join(n + ("^-1" if i else "") + ("^T" if t else "") for n, i, t in f) or "I"


def affine(e, resolve, env, xname, depth=0):
    """affine normal form of e as a function of the row-vector array `xname`:
    returns (lin, consts) with value = X . lin + sum(consts), lin a factor list (without X) or None if e does not contain X,
    consts a list of factor lists; None if e is not affine in X"""
    if depth > 12:
        return None
    if isinstance(e, ast.Name) and e.id in env and env[e.id] is not None and e.id != xname:
        return affine(env[e.id], resolve, {k: v for k, v in env.items() if k != e.id}, xname, depth + 1)
    if isinstance(e, ast.Name) and e.id == xname:
        return ([], [])
    if isinstance(e, ast.BinOp) and isinstance(e.op, (ast.Add, ast.Sub)):
        a = affine(e.left, resolve, env, xname, depth + 1)
        b = affine(e.right, resolve, env, xname, depth + 1)
        if a is None or b is None:
            return None
        if a[0] is not None and b[0] is not None:
            return None
        if isinstance(e.op, ast.Sub):
            b = (b[0], [[("-",) + tuple(c[0])] + c[1:] if c else c for c in b[1]])
        return (a[0] if a[0] is not None else b[0], a[1] + b[1])
    prod = None
    if isinstance(e, ast.Call) and resolve(e.func) in DOTS and len(e.args) == 2:
        prod = (e.args[0], e.args[1])
    elif isinstance(e, ast.BinOp) and isinstance(e.op, ast.MatMult):
        prod = (e.left, e.right)
    if prod:
        a = affine(prod[0], resolve, env, xname, depth + 1)
        m = nf(prod[1], resolve, env)
        if a is None or m is None:
            return None
        if a[0] is None and not a[1]:
            return None
        return ((a[0] + m) if a[0] is not None else None, [c + m for c in a[1]])
    if isinstance(e, ast.Attribute) and e.attr == "T":
        # (M @ X.T).T forms: handle through nf when purely linear
        f = nf(e, resolve, env)
        if f and f[0][0] == xname and not f[0][1] and not f[0][2]:
            return (f[1:], [])
        return None
    f = nf(e, resolve, env)
    if f is None:
        return None
    if any(x[0] == xname for x in f):
        if f[0][0] == xname and not f[0][1] and not f[0][2] and not any(x[0] == xname for x in f[1:]):
            return (f[1:], [])
        return None
    return (None, [f])
