"""Rule self-validation: every rule must fire on a scratch copy with one instance broken (naming the
rule) and stay silent on behaviour-preserving twins.

Variants are text edits (old -> new, must match exactly once) applied to a copy of REPO/matid in a
temporary directory outside /repo and /verif, removed immediately afterwards. The copy is only
parsed, never imported or executed.

usage: python -m vstatic.selftest [--jobs N] [--only PID[,PID]] [--list]
"""
import argparse
import concurrent.futures as cf
import json
import os
import shutil
import subprocess
import sys
import tempfile
import time

from .report import VERIF

REPO = os.environ.get("VERIF_REPO", "/repo")


def load_variants():
    from . import variants
    return variants.VARIANTS


def run_variant(v):
    t0 = time.time()
    d = tempfile.mkdtemp(prefix="vstatic-selftest-")
    try:
        dst = os.path.join(d, "matid")
        big = "matid/data/symmetry_data.py"
        touches_big = any(e[0] == big for e in v["edits"])

        def ignore(path, names):
            return [n for n in names if n == "__pycache__" or n.endswith((".so", ".pyc"))]
        shutil.copytree(os.path.join(REPO, "matid"), dst, ignore=ignore)
        if v.get("transform") == "rename_locals":
            from . import twins
            twins.rename_tree(os.path.join(REPO, "matid"), dst, suffix=v.get("suffix", "_r"), prefix=v.get("prefix", ""))
        if v.get("transform") not in (None, "rename_locals"):
            from . import twins
            twins.transform_tree(os.path.join(REPO, "matid"), dst, v["transform"])
        for rel, old, new in v["edits"]:
            p = os.path.join(d, rel)
            s = open(p).read()
            if old == "<EOF>":          # append to the file
                s = s + new
            else:
                if s.count(old) != 1:
                    return dict(v, ok=False, got=f"edit anchor matches {s.count(old)} times in {rel}", out="", wall=time.time() - t0)
                s = s.replace(old, new)
            if rel.endswith(".py"):
                try:
                    compile(s, p, "exec")
                except SyntaxError as e:
                    return dict(v, ok=False, got=f"variant does not compile: {e}", out="", wall=time.time() - t0)
            open(p, "w").write(s)
        env = dict(os.environ, VERIF_REPO=d, VERIF_NO_EVIDENCE="1", PYTHONDONTWRITEBYTECODE="1")
        r = subprocess.run([os.path.join(VERIF, "check"), v["pid"], "--tier", v.get("tier", "quick")],
                           capture_output=True, text=True, env=env, cwd=VERIF)
        out = r.stdout + r.stderr
        if v["expect"] == "silent":
            ok = r.returncode == 0 and "VIOLATION" not in out
            got = f"exit {r.returncode}"
        else:
            rule = v["expect"]
            fired = [l for l in out.splitlines() if l.strip().startswith("violated ")]
            ok = r.returncode == 1 and any(l.strip().startswith(f"violated {rule} ") for l in fired)
            if ok and v.get("mentions"):
                ok = any(v["mentions"] in l for l in fired if l.strip().startswith(f"violated {rule} "))
            got = f"exit {r.returncode}; fired: {sorted({l.split()[1] for l in fired})}"
        return dict(v, ok=ok, got=got, out=out[-3000:] if not ok else "", wall=time.time() - t0)
    finally:
        shutil.rmtree(d, ignore_errors=True)


def run_seed(seed_dir):
    """apply an independently seeded breaking change (seeded/<ID>-<k>/patch.diff) to a scratch copy; the check of its
    property must report a violation. Returns dict(name, ok, got) ; a patch that no longer applies is reported as stale."""
    name = os.path.basename(seed_dir.rstrip("/"))
    pid = name.split("-")[0]
    d = tempfile.mkdtemp(prefix="vstatic-seed-")
    try:
        def ignore(path, names):
            return [n for n in names if n == "__pycache__" or n.endswith((".so", ".pyc"))]
        shutil.copytree(os.path.join(REPO, "matid"), os.path.join(d, "matid"), ignore=ignore)
        r = subprocess.run(["git", "apply", "--include=matid/*", os.path.join(seed_dir, "patch.diff")], cwd=d, capture_output=True, text=True)
        if r.returncode != 0:
            return dict(name=name, pid=pid, ok=None, got="stale: patch does not apply to the current tree")
        env = dict(os.environ, VERIF_REPO=d, VERIF_NO_EVIDENCE="1", PYTHONDONTWRITEBYTECODE="1")
        c = subprocess.run([os.path.join(VERIF, "check"), pid, "--tier", "quick"], capture_output=True, text=True, env=env, cwd=VERIF)
        fired = sorted({l.split()[1] for l in c.stdout.splitlines() if l.strip().startswith("violated ")})
        # a change outside the reach of static analysis (e.g. the magnitude of a numeric threshold) is kept as a documented miss: it must still
        # *not* be reported by accident (that would mean a rule fires for the wrong reason), but its non-detection is not an error
        try:
            declined = json.load(open(os.path.join(seed_dir, "meta.json"))).get("declined")
        except (OSError, ValueError):
            declined = None
        if declined:
            return dict(name=name, pid=pid, ok="declined", got=f"declined ({declined[:80]}): exit {c.returncode}; fired {fired}")
        return dict(name=name, pid=pid, ok=c.returncode == 1, got=f"exit {c.returncode}; fired {fired}")
    finally:
        shutil.rmtree(d, ignore_errors=True)


def main():
    ap = argparse.ArgumentParser()
    ap.add_argument("--jobs", type=int, default=min(16, os.cpu_count() or 4))
    ap.add_argument("--only")
    ap.add_argument("--list", action="store_true")
    ap.add_argument("--verbose", action="store_true")
    a = ap.parse_args()
    vs = load_variants()
    if a.only:
        keep = set(a.only.upper().split(","))
        vs = [v for v in vs if v["pid"] in keep]
    if a.list:
        for v in vs:
            print(v["pid"], v["expect"], v["name"])
        return 0
    t0 = time.time()
    with cf.ThreadPoolExecutor(a.jobs) as ex:
        res = list(ex.map(run_variant, vs))
    bad = [r for r in res if not r["ok"]]
    for r in res:
        if a.verbose or not r["ok"]:
            print(("ok   " if r["ok"] else "FAIL ") + f'{r["pid"]} expect={r["expect"]:8s} {r["name"]} -> {r["got"]}')
            if not r["ok"] and r["out"]:
                print("      " + "\n      ".join(r["out"].splitlines()[-12:]))
    n_break = sum(1 for r in res if r["expect"] != "silent")
    print(f"selftest: {len(res)} variants ({n_break} broken, {len(res) - n_break} twins), {len(bad)} wrong, {time.time() - t0:.1f}s")
    json.dump([{k: r[k] for k in ("pid", "name", "expect", "ok", "got")} for r in res],
              open(os.path.join(VERIF, "evidence", "selftest.json"), "w"), indent=1)
    return 1 if bad else 0


if __name__ == "__main__":
    sys.exit(main())
